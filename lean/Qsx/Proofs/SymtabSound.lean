/-
The symbol table model (`Qsx.Symtab`, symtab.c) refines a plain list of names.

`WF t` is the chain invariant: bucket `x` holds exactly the named entries whose name hashes to `x`,
and no two entries carry the same name.  Under `WF`:
* `lookup_iff`      — `lookup t s = some e` iff entry `e` carries `s`;
* `create_wf`, `register_wf`, `delete_wf` — the invariant holds initially and is kept by every
  register (with table growth and pool maintenance) and every delete (swap with the last entry);
* `register_abs`, `delete_abs` — what the operations do to the list of names: append, or
  "move the last entry into the hole".
So for every history of these operations a lookup answers exactly what the list of names says
(`Props/C06`).
-/
import Qsx.Model.Symtab
import Mathlib.Tactic.Linarith
import Mathlib.Data.List.Basic

namespace Qsx.Symtab

structure WF (t : T) : Prop where
  hpos : 0 < t.hashspace
  bsize : t.buckets.size = t.hashspace
  mem : ∀ x e, x < t.hashspace →
    (e ∈ t.buckets.getD x [] ↔ ∃ s, nameAt t e = some s ∧ hash s t.hashspace = x)
  uniq : ∀ e₁ e₂ s, nameAt t e₁ = some s → nameAt t e₂ = some s → e₁ = e₂

theorem hash_lt (s : Name) {n : Nat} (h : 0 < n) : hash s n < n := Nat.mod_lt _ h

theorem nameAt_lt {t : T} {e : Nat} {s : Name} (h : nameAt t e = some s) : e < t.ents.size := by
  unfold nameAt at h
  by_contra hge
  rw [Array.getElem?_eq_none (by omega)] at h
  simp at h

/-- a lookup finds exactly the entry that carries the name -/
theorem lookup_iff {t : T} (hw : WF t) (s : Name) (e : Nat) :
    lookup t s = some e ↔ nameAt t e = some s := by
  unfold lookup
  have hne : (t.hashspace == 0) = false := by
    have := hw.hpos; simp; omega
  rw [hne]
  simp only [Bool.false_eq_true, if_false]
  constructor
  · intro h
    have := List.find?_some h
    simpa using this
  · intro h
    have hmem : e ∈ t.buckets.getD (hash s t.hashspace) [] :=
      (hw.mem _ e (hash_lt s hw.hpos)).mpr ⟨s, h, rfl⟩
    cases hf : (t.buckets.getD (hash s t.hashspace) []).find? (fun e => nameAt t e == some s) with
    | none =>
      have := List.find?_eq_none.mp hf e hmem
      simp [h] at this
    | some e' =>
      have h' := List.find?_some hf
      have h'' : nameAt t e' = some s := by simpa using h'
      rw [hw.uniq e' e s h'' h]

theorem lookup_none_iff {t : T} (hw : WF t) (s : Name) :
    lookup t s = none ↔ ∀ e, nameAt t e ≠ some s := by
  constructor
  · intro h e he
    rw [(lookup_iff hw s e).mpr he] at h
    cases h
  · intro h
    cases hl : lookup t s with
    | none => rfl
    | some e => exact absurd ((lookup_iff hw s e).mp hl) (h e)

/-! ### buckets -/

theorem getD_modify (b : Array (List Nat)) (k x : Nat) (f : List Nat → List Nat) (hk : k < b.size) :
    (b.modify k f).getD x [] = if k = x then f (b.getD x []) else b.getD x [] := by
  simp only [Array.getD_eq_getD_getElem?, Array.getElem?_modify]
  split
  · rename_i h; subst h; simp [hk]
  · rfl

theorem getD_replicate (n x : Nat) : (Array.replicate n ([] : List Nat)).getD x [] = [] := by
  simp only [Array.getD_eq_getD_getElem?, Array.getElem?_replicate]
  split <;> rfl

def entName (ents : Array Ent) (e : Nat) : Option Name := (ents[e]?).bind (·.name)

theorem nameAt_eq (t : T) (e : Nat) : nameAt t e = entName t.ents e := rfl

def rebuildStep (ents : Array Ent) (hs : Nat) (b : Array (List Nat)) (i : Nat) : Array (List Nat) :=
  match (ents[i]?).bind (·.name) with
  | some s => b.modify (hash s hs) (fun l => i :: l)
  | none => b

theorem rebuild_eq (ents : Array Ent) (hs : Nat) :
    rebuild ents hs = (List.range ents.size).foldl (rebuildStep ents hs) (Array.replicate hs []) := rfl

theorem rebuild_fold (ents : Array Ent) (hs : Nat) (hpos : 0 < hs) (is : List Nat) :
    ∀ (b : Array (List Nat)), b.size = hs →
      (is.foldl (rebuildStep ents hs) b).size = hs ∧
      ∀ x e, x < hs → (e ∈ (is.foldl (rebuildStep ents hs) b).getD x [] ↔
        e ∈ b.getD x [] ∨ (e ∈ is ∧ ∃ s, entName ents e = some s ∧ hash s hs = x)) := by
  induction is with
  | nil => intro b hb; exact ⟨hb, fun x e _ => by simp⟩
  | cons i is ih =>
    intro b hb
    simp only [List.foldl_cons]
    have hsz : (rebuildStep ents hs b i).size = hs := by
      unfold rebuildStep; split <;> simp [hb]
    obtain ⟨h1, h2⟩ := ih (rebuildStep ents hs b i) hsz
    refine ⟨h1, ?_⟩
    intro x e hx
    rw [h2 x e hx]
    have hstep : e ∈ (rebuildStep ents hs b i).getD x [] ↔
        e ∈ b.getD x [] ∨ (e = i ∧ ∃ s, entName ents e = some s ∧ hash s hs = x) := by
      unfold rebuildStep
      cases hn : (ents[i]?).bind (·.name) with
      | none =>
        simp only
        constructor
        · intro h; exact Or.inl h
        · rintro (h | ⟨rfl, s, hs', _⟩)
          · exact h
          · unfold entName at hs'; rw [hn] at hs'; cases hs'
      | some s =>
        simp only
        rw [getD_modify _ _ _ _ (by rw [hb]; exact hash_lt s hpos)]
        split
        · rename_i hk
          simp only [List.mem_cons]
          constructor
          · rintro (rfl | h)
            · exact Or.inr ⟨rfl, s, hn, hk⟩
            · exact Or.inl h
          · rintro (h | ⟨rfl, _⟩)
            · exact Or.inr h
            · exact Or.inl rfl
        · rename_i hk
          constructor
          · intro h; exact Or.inl h
          · rintro (h | ⟨rfl, s', hs', hx'⟩)
            · exact h
            · unfold entName at hs'; rw [hn] at hs'; cases hs'; exact absurd hx' hk
    rw [hstep]
    simp only [List.mem_cons]
    constructor
    · rintro ((h | ⟨rfl, h⟩) | ⟨h, h'⟩)
      · exact Or.inl h
      · exact Or.inr ⟨Or.inl rfl, h⟩
      · exact Or.inr ⟨Or.inr h, h'⟩
    · rintro (h | ⟨rfl | h, h'⟩)
      · exact Or.inl (Or.inl h)
      · exact Or.inl (Or.inr ⟨rfl, h'⟩)
      · exact Or.inr ⟨h, h'⟩

theorem entName_lt {ents : Array Ent} {e : Nat} {s : Name} (h : entName ents e = some s) : e < ents.size := by
  unfold entName at h
  by_contra hge
  rw [Array.getElem?_eq_none (by omega)] at h
  simp at h

theorem rebuild_spec (ents : Array Ent) (hs : Nat) (hpos : 0 < hs) :
    (rebuild ents hs).size = hs ∧
    ∀ x e, x < hs → (e ∈ (rebuild ents hs).getD x [] ↔ ∃ s, entName ents e = some s ∧ hash s hs = x) := by
  rw [rebuild_eq]
  obtain ⟨h1, h2⟩ := rebuild_fold ents hs hpos (List.range ents.size) (Array.replicate hs []) (by simp)
  refine ⟨h1, ?_⟩
  intro x e hx
  rw [h2 x e hx, getD_replicate]
  constructor
  · rintro (h | ⟨_, h⟩)
    · cases h
    · exact h
  · rintro ⟨s, hs', hx'⟩
    exact Or.inr ⟨List.mem_range.mpr (entName_lt hs'), s, hs', hx'⟩

/-! ### growth and pool maintenance keep the invariant -/

theorem nextPrimeFrom_ge (fuel x : Nat) : x ≤ nextPrimeFrom fuel x := by
  induction fuel generalizing x with
  | zero => simp [nextPrimeFrom]
  | succ f ih =>
    unfold nextPrimeFrom
    split
    · exact le_refl _
    · exact le_trans (by omega) (ih (x + 2))

theorem nextPrime_pos (x : Nat) : 0 < nextPrime x := by
  unfold nextPrime
  split
  · omega
  · rename_i h
    have := nextPrimeFrom_ge (2 * x + 8) (if x % 2 == 1 then x else x + 1)
    have h3 : 3 ≤ (if x % 2 == 1 then x else x + 1) := by split <;> omega
    omega

theorem entName_wf_of (t t' : T) (he : t'.ents = t.ents) (e : Nat) : nameAt t' e = nameAt t e := by
  unfold nameAt; rw [he]

theorem grow_wf {t : T} (hw : WF t) : WF (grow t) := by
  have hpos : 0 < nextPrime (t.nameSpace * 2) := nextPrime_pos _
  obtain ⟨h1, h2⟩ := rebuild_spec t.ents (nextPrime (t.nameSpace * 2)) hpos
  exact ⟨hpos, h1, fun x e hx => h2 x e hx, hw.uniq⟩

theorem grow_ents (t : T) : (grow t).ents = t.ents := rfl

theorem growWhile_wf (fuel : Nat) {t : T} (hw : WF t) : WF (growWhile fuel t) := by
  induction fuel generalizing t with
  | zero => exact hw
  | succ f ih =>
    unfold growWhile
    split
    · exact ih (grow_wf hw)
    · exact hw

theorem growWhile_ents (fuel : Nat) (t : T) : (growWhile fuel t).ents = t.ents := by
  induction fuel generalizing t with
  | zero => rfl
  | succ f ih =>
    unfold growWhile
    split
    · rw [ih, grow_ents]
    · rfl

/-- a table whose hash part and entries are those of a well-formed one is well formed (the pool
counters play no role) -/
theorem wf_of_same {t t' : T} (hw : WF t) (h1 : t'.hashspace = t.hashspace) (h2 : t'.buckets = t.buckets)
    (h3 : t'.ents = t.ents) : WF t' := by
  refine ⟨by rw [h1]; exact hw.hpos, by rw [h2, h1]; exact hw.bsize, ?_, ?_⟩
  · intro x e hx
    rw [h2, h1, entName_wf_of t t' h3]
    exact hw.mem x e (by rw [← h1]; exact hx)
  · intro e₁ e₂ s
    rw [entName_wf_of t t' h3, entName_wf_of t t' h3]
    exact hw.uniq e₁ e₂ s

theorem growPool_same (t : T) :
    (growPool t).hashspace = t.hashspace ∧ (growPool t).buckets = t.buckets ∧ (growPool t).ents = t.ents ∧
    (growPool t).nameSpace = t.nameSpace ∧ (growPool t).indexOk = t.indexOk := by
  unfold growPool; split <;> simp

theorem addStringLoop_same (fuel : Nat) (t : T) (l : Nat) :
    (addStringLoop fuel t l).hashspace = t.hashspace ∧ (addStringLoop fuel t l).buckets = t.buckets ∧
    (addStringLoop fuel t l).ents = t.ents ∧ (addStringLoop fuel t l).nameSpace = t.nameSpace ∧
    (addStringLoop fuel t l).indexOk = t.indexOk := by
  induction fuel generalizing t with
  | zero => simp [addStringLoop]
  | succ f ih =>
    unfold addStringLoop
    split
    · obtain ⟨a, b, c, d, e⟩ := ih (growPool t)
      obtain ⟨a', b', c', d', e'⟩ := growPool_same t
      exact ⟨a.trans a', b.trans b', c.trans c', d.trans d', e.trans e'⟩
    · simp

theorem addString_same (t : T) (s : Name) :
    (addString t s).hashspace = t.hashspace ∧ (addString t s).buckets = t.buckets ∧
    (addString t s).ents = t.ents ∧ (addString t s).nameSpace = t.nameSpace ∧
    (addString t s).indexOk = t.indexOk := by
  unfold addString
  exact addStringLoop_same _ t _

theorem addString_wf {t : T} (hw : WF t) (s : Name) : WF (addString t s) := by
  obtain ⟨a, b, c, _, _⟩ := addString_same t s
  exact wf_of_same hw a b c

/-! ### create, register -/

theorem create_wf (n : Nat) : WF (create n) := by
  unfold create
  refine ⟨nextPrime_pos _, by simp, ?_, ?_⟩
  · intro x e _
    simp only [getD_replicate]
    constructor
    · intro h; cases h
    · rintro ⟨s, hs, _⟩
      simp [nameAt] at hs
  · intro e₁ e₂ s h
    simp [nameAt] at h

theorem entName_push (ents : Array Ent) (v : Ent) (e : Nat) :
    entName (ents.push v) e = if e = ents.size then v.name else entName ents e := by
  unfold entName
  rw [Array.getElem?_push]
  split <;> rfl

/-- appending a named entry whose name is new keeps the invariant -/
theorem push_named_wf {t : T} (hw : WF t) (s : Name) (idx : Int)
    (hnew : ∀ e, nameAt t e ≠ some s) :
    WF { t with ents := t.ents.push { name := some s, index := idx },
                buckets := t.buckets.modify (hash s t.hashspace) (fun l => t.ents.size :: l) } := by
  have hlt := hash_lt s hw.hpos
  refine ⟨hw.hpos, by simp [hw.bsize], ?_, ?_⟩
  · intro x e hx
    show e ∈ (t.buckets.modify (hash s t.hashspace) _).getD x [] ↔
      ∃ s', entName (t.ents.push _) e = some s' ∧ hash s' t.hashspace = x
    rw [getD_modify _ _ _ _ (by rw [hw.bsize]; exact hlt), entName_push]
    have hm := hw.mem x e hx
    rw [nameAt_eq] at hm
    by_cases he : e = t.ents.size
    · subst he
      simp only [if_true]
      have hnone : entName t.ents t.ents.size = none := by
        unfold entName; simp
      constructor
      · intro h
        split at h
        · rename_i hk; exact ⟨s, rfl, hk⟩
        · have := hm.mp h
          rw [hnone] at this
          obtain ⟨_, h', _⟩ := this; cases h'
      · rintro ⟨s', hs', hx'⟩
        cases hs'
        rw [if_pos hx']
        exact List.mem_cons_self ..
    · simp only [if_neg he]
      split
      · rename_i hk
        simp only [List.mem_cons]
        constructor
        · rintro (h | h)
          · exact absurd h he
          · exact hm.mp h
        · intro h; exact Or.inr (hm.mpr h)
      · exact hm
  · intro e₁ e₂ s'
    show entName (t.ents.push _) e₁ = some s' → entName (t.ents.push _) e₂ = some s' → e₁ = e₂
    rw [entName_push, entName_push]
    intro h1 h2
    by_cases he1 : e₁ = t.ents.size <;> by_cases he2 : e₂ = t.ents.size
    · rw [he1, he2]
    · rw [if_pos he1] at h1; rw [if_neg he2] at h2
      cases h1
      exact absurd h2 (hnew e₂)
    · rw [if_neg he1] at h1; rw [if_pos he2] at h2
      cases h2
      exact absurd h1 (hnew e₁)
    · rw [if_neg he1] at h1; rw [if_neg he2] at h2
      exact hw.uniq e₁ e₂ s' h1 h2

theorem push_unnamed_wf {t : T} (hw : WF t) (idx : Int) :
    WF { t with ents := t.ents.push { name := none, index := idx } } := by
  refine ⟨hw.hpos, hw.bsize, ?_, ?_⟩
  · intro x e hx
    show e ∈ t.buckets.getD x [] ↔ ∃ s', entName (t.ents.push _) e = some s' ∧ hash s' t.hashspace = x
    rw [entName_push]
    have hm := hw.mem x e hx
    rw [nameAt_eq] at hm
    by_cases he : e = t.ents.size
    · subst he
      have hnone : entName t.ents t.ents.size = none := by unfold entName; simp
      rw [hnone] at hm
      simp only [if_true]
      rw [hm]
    · rw [if_neg he]; exact hm
  · intro e₁ e₂ s'
    show entName (t.ents.push _) e₁ = some s' → entName (t.ents.push _) e₂ = some s' → e₁ = e₂
    rw [entName_push, entName_push]
    intro h1 h2
    by_cases he1 : e₁ = t.ents.size
    · rw [if_pos he1] at h1; cases h1
    · by_cases he2 : e₂ = t.ents.size
      · rw [if_pos he2] at h2; cases h2
      · rw [if_neg he1] at h1; rw [if_neg he2] at h2
        exact hw.uniq e₁ e₂ s' h1 h2

theorem abs_mem (t : T) (s : Name) : some s ∈ abs t ↔ ∃ e, nameAt t e = some s := by
  unfold abs nameAt
  simp only [List.mem_map, Array.mem_toList_iff]
  constructor
  · rintro ⟨v, hv, hn⟩
    obtain ⟨i, hi, rfl⟩ := Array.mem_iff_getElem.mp hv
    exact ⟨i, by simp [hi, hn]⟩
  · rintro ⟨e, he⟩
    cases hg : t.ents[e]? with
    | none => rw [hg] at he; cases he
    | some v =>
      rw [hg] at he
      exact ⟨v, Array.mem_of_getElem? hg, by simpa using he⟩

/-- `register` keeps the invariant -/
theorem register_wf {t : T} (hw : WF t) (s : Option Name) (idx : Int) : WF (register t s idx).1 := by
  unfold register
  have hw0 : WF (if idx < 0 then { t with indexOk := false } else t) := by
    split
    · exact wf_of_same hw rfl rfl rfl
    · exact hw
  generalize (if idx < 0 then { t with indexOk := false } else t) = t0 at hw0
  cases s with
  | none =>
    simp only
    exact push_unnamed_wf (growWhile_wf 64 hw0) idx
  | some n =>
    simp only
    cases hl : lookup t0 n with
    | some k => exact hw0
    | none =>
      simp only
      have hnew0 := (lookup_none_iff hw0 n).mp hl
      have hw2 : WF (growWhile 64 (addString t0 n)) := growWhile_wf 64 (addString_wf hw0 n)
      have hents : (growWhile 64 (addString t0 n)).ents = t0.ents := by
        rw [growWhile_ents, (addString_same t0 n).2.2.1]
      have hnew : ∀ e, nameAt (growWhile 64 (addString t0 n)) e ≠ some n := by
        intro e; rw [entName_wf_of t0 _ hents]; exact hnew0 e
      exact push_named_wf hw2 n idx hnew

/-- what `register` does to the list of names, and what it reports -/
theorem register_abs {t : T} (hw : WF t) (s : Option Name) (idx : Int) :
    abs (register t s idx).1 =
      (match s with
       | none => abs t ++ [none]
       | some n => if some n ∈ abs t then abs t else abs t ++ [some n]) ∧
    (register t s idx).2 = (match s with | none => false | some n => decide (some n ∈ abs t)) := by
  unfold register
  have hw0 : WF (if idx < 0 then { t with indexOk := false } else t) := by
    split
    · exact wf_of_same hw rfl rfl rfl
    · exact hw
  have habs0 : abs (if idx < 0 then { t with indexOk := false } else t) = abs t := by
    split <;> rfl
  generalize (if idx < 0 then { t with indexOk := false } else t) = t0 at hw0 habs0
  rw [← habs0]
  cases s with
  | none =>
    simp only [and_true]
    unfold abs
    simp [growWhile_ents]
  | some n =>
    simp only
    cases hl : lookup t0 n with
    | some k =>
      have hmem : some n ∈ abs t0 := (abs_mem t0 n).mpr ⟨k, (lookup_iff hw0 n k).mp hl⟩
      simp [hmem]
    | none =>
      have hnm : some n ∉ abs t0 := by
        intro h
        obtain ⟨e, he⟩ := (abs_mem t0 n).mp h
        exact (lookup_none_iff hw0 n).mp hl e he
      simp only [hnm, if_false, decide_false, and_true]
      unfold abs
      simp [growWhile_ents, (addString_same t0 n).2.2.1]

/-! ### delete -/

/-- the entry array after deleting entry `d`: the last entry moves into the hole -/
def delEnts (ents : Array Ent) (d : Nat) : Array Ent :=
  if d == ents.size - 1 then ents.pop else (ents.set! d (ents.getD (ents.size - 1) default)).pop

theorem entName_delEnts (ents : Array Ent) (d : Nat) (hd : d < ents.size) (e : Nat) :
    entName (delEnts ents d) e =
      if e < ents.size - 1 then (if e = d then entName ents (ents.size - 1) else entName ents e) else none := by
  unfold delEnts entName
  by_cases hl : d = ents.size - 1
  · rw [if_pos (by simp [hl])]
    rw [Array.getElem?_pop]
    split
    · rename_i he
      rw [if_neg (by omega)]
    · rfl
  · rw [if_neg (by simp [hl])]
    rw [Array.getElem?_pop, Array.set!_eq_setIfInBounds, Array.size_setIfInBounds, Array.getElem?_setIfInBounds]
    split
    · rename_i he
      by_cases hed : e = d
      · subst hed
        simp only [if_true, hd]
        have : ents[ents.size - 1]? = some (ents.getD (ents.size - 1) default) := by
          simp [Array.getD_eq_getD_getElem?]
          have : ents.size - 1 < ents.size := by omega
          simp [this]
        rw [this]
      · rw [if_neg (fun h => hed h.symm), if_neg hed]
    · rfl

theorem mem_filter_ne (l : List Nat) (d e : Nat) : e ∈ l.filter (fun e' => e' != d) ↔ e ∈ l ∧ e ≠ d := by
  simp [List.mem_filter]

/-- `delete` keeps the invariant -/
theorem delete_wf {t : T} (hw : WF t) (s : Name) : WF (delete t s).1 := by
  unfold delete
  cases hl : lookup t s with
  | none => exact hw
  | some d =>
    simp only
    have hd : nameAt t d = some s := (lookup_iff hw s d).mp hl
    have hdn : d < t.ents.size := nameAt_lt hd
    have hs_lt := hash_lt s hw.hpos
    -- membership after unlinking d
    have hb1 : ∀ x e, x < t.hashspace →
        (e ∈ (t.buckets.modify (hash s t.hashspace) (fun l => l.filter fun e' => e' != d)).getD x [] ↔
          (∃ s', nameAt t e = some s' ∧ hash s' t.hashspace = x) ∧ e ≠ d) := by
      intro x e hx
      rw [getD_modify _ _ _ _ (by rw [hw.bsize]; exact hs_lt)]
      split
      · rw [mem_filter_ne, hw.mem x e hx]
      · rename_i hne
        rw [hw.mem x e hx]
        constructor
        · rintro ⟨s', h1, h2⟩
          refine ⟨⟨s', h1, h2⟩, ?_⟩
          rintro rfl
          rw [hd] at h1; cases h1
          exact hne h2
        · exact fun h => h.1
    have hsize1 : (t.buckets.modify (hash s t.hashspace) (fun l => l.filter fun e' => e' != d)).size = t.hashspace := by
      simp [hw.bsize]
    -- names after the move
    have hname : ∀ e, entName (delEnts t.ents d) e =
        if e < t.ents.size - 1 then (if e = d then nameAt t (t.ents.size - 1) else nameAt t e) else none :=
      fun e => entName_delEnts t.ents d hdn e
    have huniq : ∀ e₁ e₂ s', entName (delEnts t.ents d) e₁ = some s' → entName (delEnts t.ents d) e₂ = some s' → e₁ = e₂ := by
      intro e₁ e₂ s' h1 h2
      rw [hname] at h1 h2
      split at h1
      · rename_i l1
        split at h2
        · rename_i l2
          by_cases c1 : e₁ = d <;> by_cases c2 : e₂ = d
          · rw [c1, c2]
          · rw [if_pos c1] at h1; rw [if_neg c2] at h2
            have := hw.uniq _ _ _ h1 h2; omega
          · rw [if_neg c1] at h1; rw [if_pos c2] at h2
            have := hw.uniq _ _ _ h1 h2; omega
          · rw [if_neg c1] at h1; rw [if_neg c2] at h2
            exact hw.uniq _ _ _ h1 h2
        · cases h2
      · cases h1
    by_cases hlast : d = t.ents.size - 1
    · -- the last entry is deleted
      rw [if_pos (by simp [removeFromBucket, hlast])]
      have hents : t.ents.pop = delEnts t.ents d := by unfold delEnts; rw [if_pos (by simp [hlast])]
      refine ⟨hw.hpos, hsize1, ?_, ?_⟩
      · intro x e hx
        show e ∈ (t.buckets.modify _ _).getD x [] ↔ ∃ s', entName t.ents.pop e = some s' ∧ _
        rw [hb1 x e hx, hents]
        simp only [hname]
        constructor
        · rintro ⟨⟨s', h1, h2⟩, hne⟩
          have := nameAt_lt h1
          refine ⟨s', ?_, h2⟩
          rw [if_pos (by omega), if_neg hne]; exact h1
        · rintro ⟨s', h1, h2⟩
          split at h1
          · rename_i hlt
            have hne : e ≠ d := by omega
            rw [if_neg hne] at h1
            exact ⟨⟨s', h1, h2⟩, hne⟩
          · cases h1
      · intro e₁ e₂ s'
        show entName t.ents.pop e₁ = some s' → entName t.ents.pop e₂ = some s' → e₁ = e₂
        rw [hents]; exact huniq e₁ e₂ s'
    · -- an inner entry is deleted: the last one moves into its place
      rw [if_neg (by simp [removeFromBucket, hlast])]
      have hents : ((removeFromBucket { t with indexOk := false } d s).ents.set! d
            ((removeFromBucket { t with indexOk := false } d s).ents.getD
              ((removeFromBucket { t with indexOk := false } d s).ents.size - 1) default)).pop = delEnts t.ents d := by
        unfold delEnts; rw [if_neg (by simp [hlast])]; rfl
      have hlastlt : t.ents.size - 1 < t.ents.size := by omega
      cases hle : ((removeFromBucket { t with indexOk := false } d s).ents.getD
              ((removeFromBucket { t with indexOk := false } d s).ents.size - 1) default).name with
      | none =>
        have hln : nameAt t (t.ents.size - 1) = none := by
          have : (t.ents.getD (t.ents.size - 1) default).name = none := hle
          unfold nameAt
          simp [Array.getD_eq_getD_getElem?, hlastlt] at this ⊢
          exact this
        simp only
        refine ⟨hw.hpos, hsize1, ?_, ?_⟩
        · intro x e hx
          show e ∈ (t.buckets.modify _ _).getD x [] ↔ ∃ s', entName (Array.pop _) e = some s' ∧ _
          rw [hb1 x e hx, hents]
          simp only [hname]
          constructor
          · rintro ⟨⟨s', h1, h2⟩, hne⟩
            have hlt := nameAt_lt h1
            have : e ≠ t.ents.size - 1 := by rintro rfl; rw [hln] at h1; cases h1
            refine ⟨s', ?_, h2⟩
            rw [if_pos (by omega), if_neg hne]; exact h1
          · rintro ⟨s', h1, h2⟩
            split at h1
            · by_cases c : e = d
              · rw [if_pos c, hln] at h1; cases h1
              · rw [if_neg c] at h1; exact ⟨⟨s', h1, h2⟩, c⟩
            · cases h1
        · intro e₁ e₂ s'
          show entName (Array.pop _) e₁ = some s' → entName (Array.pop _) e₂ = some s' → e₁ = e₂
          rw [hents]; exact huniq e₁ e₂ s'
      | some ls =>
        have hln : nameAt t (t.ents.size - 1) = some ls := by
          have : (t.ents.getD (t.ents.size - 1) default).name = some ls := hle
          unfold nameAt
          simp [Array.getD_eq_getD_getElem?, hlastlt] at this ⊢
          exact this
        simp only
        have hls_lt := hash_lt ls hw.hpos
        refine ⟨hw.hpos, by simp [removeFromBucket, hw.bsize], ?_, ?_⟩
        · intro x e hx
          show e ∈ (Array.modify (t.buckets.modify _ _) (hash ls t.hashspace) _).getD x [] ↔
            ∃ s', entName (Array.pop _) e = some s' ∧ _
          rw [hents, getD_modify _ _ _ _ (by rw [hsize1]; exact hls_lt)]
          simp only [hname]
          have hsz : (removeFromBucket { t with indexOk := false } d s).ents.size = t.ents.size := rfl
          split
          · rename_i hxl
            simp only [List.mem_map, hsz]
            constructor
            · rintro ⟨a, ha, hfa⟩
              obtain ⟨⟨sa, ha1, ha2⟩, hane⟩ := (hb1 x a hx).mp ha
              by_cases c : a = t.ents.size - 1
              · rw [if_pos (by simp [c])] at hfa
                subst hfa
                exact ⟨ls, by rw [if_pos (by omega), if_pos rfl]; exact hln, hxl⟩
              · rw [if_neg (by simp [c])] at hfa
                subst hfa
                have := nameAt_lt ha1
                exact ⟨sa, by rw [if_pos (by omega), if_neg hane]; exact ha1, ha2⟩
            · rintro ⟨s', h1, h2⟩
              split at h1
              · rename_i hlt
                by_cases c : e = d
                · refine ⟨t.ents.size - 1, (hb1 x _ hx).mpr ⟨⟨ls, hln, hxl⟩, fun h => hlast h.symm⟩, ?_⟩
                  rw [if_pos (by simp)]; exact c.symm
                · rw [if_neg c] at h1
                  refine ⟨e, (hb1 x e hx).mpr ⟨⟨s', h1, h2⟩, c⟩, ?_⟩
                  rw [if_neg (by simp; omega)]
              · cases h1
          · rename_i hxl
            rw [hb1 x e hx]
            constructor
            · rintro ⟨⟨s', h1, h2⟩, hne⟩
              have hlt := nameAt_lt h1
              have : e ≠ t.ents.size - 1 := by
                rintro rfl; rw [hln] at h1; cases h1; exact hxl h2
              exact ⟨s', by rw [if_pos (by omega), if_neg hne]; exact h1, h2⟩
            · rintro ⟨s', h1, h2⟩
              split at h1
              · by_cases c : e = d
                · rw [if_pos c, hln] at h1; cases h1; exact absurd h2 hxl
                · rw [if_neg c] at h1; exact ⟨⟨s', h1, h2⟩, c⟩
              · cases h1
        · intro e₁ e₂ s'
          show entName (Array.pop _) e₁ = some s' → entName (Array.pop _) e₂ = some s' → e₁ = e₂
          rw [hents]; exact huniq e₁ e₂ s'

/-- what `delete` does to the entries: the last entry moves into the hole; not found: nothing -/
theorem delete_ents (t : T) (s : Name) :
    (delete t s).1.ents = (match lookup t s with | some d => delEnts t.ents d | none => t.ents) ∧
    (delete t s).2 = (match lookup t s with | some _ => 0 | none => 1) := by
  unfold delete
  cases hl : lookup t s with
  | none => simp
  | some d =>
    simp only
    by_cases hlast : d = t.ents.size - 1
    · rw [if_pos (by simp [removeFromBucket, hlast])]
      simp only [and_true]
      unfold delEnts; rw [if_pos (by simp [hlast])]; rfl
    · rw [if_neg (by simp [removeFromBucket, hlast])]
      simp only [and_true]
      unfold delEnts; rw [if_neg (by simp [hlast])]
      cases ((removeFromBucket { t with indexOk := false } d s).ents.getD
              ((removeFromBucket { t with indexOk := false } d s).ents.size - 1) default).name <;> rfl

/-! ### the abstract list of names -/

theorem abs_getElem? (t : T) (e : Nat) :
    (abs t)[e]? = if e < t.ents.size then some (nameAt t e) else none := by
  unfold abs nameAt
  simp only [List.getElem?_map, Array.getElem?_toList]
  split
  · rename_i h; simp [h]
  · rename_i h; simp [Array.getElem?_eq_none (Nat.le_of_not_lt h)]

theorem abs_length (t : T) : (abs t).length = t.ents.size := by simp [abs]

/-- swap-with-last removal on a list -/
def swapRemove {α : Type} (l : List α) (d : Nat) : List α :=
  if d = l.length - 1 then l.dropLast
  else match l.getLast? with
    | some x => (l.set d x).dropLast
    | none => l

theorem delEnts_abs (t : T) (d : Nat) (hd : d < t.ents.size) :
    (delEnts t.ents d).toList.map (·.name) = swapRemove (abs t) d := by
  apply List.ext_getElem?
  intro e
  have hlen := abs_length t
  have hL : (List.map (fun x => x.name) (delEnts t.ents d).toList)[e]? =
      if e < (delEnts t.ents d).size then some (entName (delEnts t.ents d) e) else none :=
    abs_getElem? { t with ents := delEnts t.ents d } e
  have hsz : (delEnts t.ents d).size = t.ents.size - 1 := by
    unfold delEnts; split <;> simp
  rw [hL, hsz, entName_delEnts t.ents d hd]
  unfold swapRemove
  rw [hlen]
  by_cases hlast : d = t.ents.size - 1
  · rw [if_pos hlast, List.getElem?_dropLast, hlen, abs_getElem?]
    split
    · rename_i he
      rw [if_neg (by omega), if_pos (by omega)]; rfl
    · rfl
  · rw [if_neg hlast]
    have hgl : (abs t).getLast? = some (nameAt t (t.ents.size - 1)) := by
      rw [List.getLast?_eq_getElem?, hlen, abs_getElem?, if_pos (by omega)]
    rw [hgl]
    simp only
    rw [List.getElem?_dropLast, List.length_set, hlen, List.getElem?_set, hlen, abs_getElem?]
    split
    · rename_i he
      by_cases c : e = d
      · rw [if_pos c, if_pos c.symm]; rfl
      · rw [if_neg c, if_neg (fun h => c h.symm), if_pos (by omega)]; rfl
    · rfl

theorem idxOf_first {α : Type} [BEq α] [LawfulBEq α] (l : List α) (a : α) :
    ∀ d, l[d]? = some a → (∀ j, j < d → l[j]? ≠ some a) → l.idxOf a = d := by
  induction l with
  | nil => intro d h; simp at h
  | cons x xs ih =>
    intro d h1 h2
    cases d with
    | zero =>
      simp at h1
      rw [h1]; simp
    | succ d' =>
      have hx : x ≠ a := by
        have := h2 0 (by omega); simpa using this
      rw [List.idxOf_cons_ne _ hx]
      congr 1
      apply ih d' (by simpa using h1)
      intro j hj
      have := h2 (j + 1) (by omega)
      simpa using this

/-- under the invariant the list position of a name is the entry a lookup returns -/
theorem idxOf_lookup {t : T} (hw : WF t) (s : Name) (d : Nat) (h : lookup t s = some d) :
    (abs t).idxOf (some s) = d := by
  have hd := (lookup_iff hw s d).mp h
  have hlt := nameAt_lt hd
  apply idxOf_first
  · rw [abs_getElem?, if_pos hlt, hd]
  · intro j hj
    rw [abs_getElem?, if_pos (by omega)]
    intro hc
    have : nameAt t j = some s := by simpa using hc
    have := hw.uniq j d s this hd
    omega

/-- the list-level specification of `delete` -/
def specDelete (l : List (Option Name)) (s : Name) : List (Option Name) :=
  if some s ∈ l then swapRemove l (l.idxOf (some s)) else l

theorem delete_abs {t : T} (hw : WF t) (s : Name) :
    abs (delete t s).1 = specDelete (abs t) s ∧ (delete t s).2 = if some s ∈ abs t then 0 else 1 := by
  obtain ⟨he, hr⟩ := delete_ents t s
  unfold specDelete
  cases hl : lookup t s with
  | none =>
    rw [hl] at he hr
    have hnm : some s ∉ abs t := by
      intro h
      obtain ⟨e, he'⟩ := (abs_mem t s).mp h
      exact (lookup_none_iff hw s).mp hl e he'
    simp only [hnm, if_false]
    exact ⟨by unfold abs; rw [he], hr⟩
  | some d =>
    rw [hl] at he hr
    have hd := (lookup_iff hw s d).mp hl
    have hmem : some s ∈ abs t := (abs_mem t s).mpr ⟨d, hd⟩
    simp only [hmem, if_true]
    refine ⟨?_, hr⟩
    rw [idxOf_lookup hw s d hl, ← delEnts_abs t d (nameAt_lt hd)]
    unfold abs; rw [he]

/-! ### rename -/

theorem entName_modify_name (ents : Array Ent) (i : Nat) (nm : Option Name) (e : Nat) :
    entName (ents.modify i (fun v => { v with name := nm })) e =
      if e = i ∧ i < ents.size then nm else entName ents e := by
  unfold entName
  rw [Array.getElem?_modify]
  by_cases h : i = e
  · subst h
    rw [if_pos rfl]
    by_cases hi : i < ents.size
    · rw [if_pos ⟨rfl, hi⟩]; simp [hi]
    · rw [if_neg (fun h => hi h.2)]; simp [Array.getElem?_eq_none (Nat.le_of_not_lt hi)]
  · rw [if_neg h, if_neg (fun h' => h h'.1.symm)]

/-- the state after unlinking entry `i` from its chain (or `t` itself when `i` is unnamed) -/
structure Unlinked (t t1 : T) (i : Nat) : Prop where
  hh : t1.hashspace = t.hashspace
  he : t1.ents = t.ents
  hbs : t1.buckets.size = t.hashspace
  hbm : ∀ x e, x < t.hashspace → (e ∈ t1.buckets.getD x [] ↔
          (∃ s', nameAt t e = some s' ∧ hash s' t.hashspace = x) ∧ e ≠ i)

theorem unlinked_unnamed {t : T} (hw : WF t) (i : Nat) (hold : nameAt t i = none) : Unlinked t t i := by
  refine ⟨rfl, rfl, hw.bsize, ?_⟩
  intro x e hx
  rw [hw.mem x e hx]
  constructor
  · rintro ⟨s', h1, h2⟩
    refine ⟨⟨s', h1, h2⟩, ?_⟩
    rintro rfl; rw [hold] at h1; cases h1
  · exact fun h => h.1

theorem unlinked_named {t : T} (hw : WF t) (i : Nat) (os : Name) (hold : nameAt t i = some os) :
    Unlinked t (removeFromBucket t i os) i := by
  refine ⟨rfl, rfl, by simp [removeFromBucket, hw.bsize], ?_⟩
  intro x e hx
  simp only [removeFromBucket]
  rw [getD_modify _ _ _ _ (by rw [hw.bsize]; exact hash_lt os hw.hpos)]
  split
  · rw [mem_filter_ne, hw.mem x e hx]
  · rename_i hne
    rw [hw.mem x e hx]
    constructor
    · rintro ⟨s', h1, h2⟩
      refine ⟨⟨s', h1, h2⟩, ?_⟩
      rintro rfl
      rw [hold] at h1; cases h1
      exact hne h2
    · exact fun h => h.1

theorem rename_to_none_wf {t t1 : T} (hw : WF t) (i : Nat) (hi' : i < t.ents.size) (u : Unlinked t t1 i) :
    WF { t1 with ents := t1.ents.modify i (fun e => { e with name := none }) } := by
  obtain ⟨hh, he, hbs, hbm⟩ := u
  refine ⟨by rw [hh]; exact hw.hpos, by rw [hh]; exact hbs, ?_, ?_⟩
  · intro x e hx
    show e ∈ t1.buckets.getD x [] ↔ ∃ s', entName (t1.ents.modify i _) e = some s' ∧ hash s' t1.hashspace = x
    have hx' : x < t.hashspace := by
      have : x < t1.hashspace := hx
      rw [hh] at this; exact this
    rw [hh, hbm x e hx', he, entName_modify_name]
    constructor
    · rintro ⟨⟨s', h1, h2⟩, hne⟩
      exact ⟨s', by rw [if_neg (fun h => hne h.1)]; exact h1, h2⟩
    · rintro ⟨s', h1, h2⟩
      by_cases c : e = i
      · rw [if_pos ⟨c, hi'⟩] at h1; cases h1
      · rw [if_neg (fun h => c h.1)] at h1; exact ⟨⟨s', h1, h2⟩, c⟩
  · intro e₁ e₂ s'
    show entName (t1.ents.modify i _) e₁ = some s' → entName (t1.ents.modify i _) e₂ = some s' → e₁ = e₂
    rw [he, entName_modify_name, entName_modify_name]
    intro h1 h2
    by_cases c1 : e₁ = i
    · rw [if_pos ⟨c1, hi'⟩] at h1; cases h1
    · by_cases c2 : e₂ = i
      · rw [if_pos ⟨c2, hi'⟩] at h2; cases h2
      · rw [if_neg (fun h => c1 h.1)] at h1; rw [if_neg (fun h => c2 h.1)] at h2
        exact hw.uniq _ _ _ h1 h2

theorem rename_to_some_wf {t t1 : T} (hw : WF t) (i : Nat) (hi' : i < t.ents.size) (u : Unlinked t t1 i)
    (ns : Name) (hfr : ∀ e, nameAt t e ≠ some ns) :
    WF { addString t1 ns with
          ents := (addString t1 ns).ents.modify i (fun e => { e with name := some ns }),
          buckets := (addString t1 ns).buckets.modify (hash ns (addString t1 ns).hashspace) (fun l => i :: l) } := by
  obtain ⟨hh, he, hbs, hbm⟩ := u
  obtain ⟨a1, a2, a3, _, _⟩ := addString_same t1 ns
  refine ⟨by rw [a1, hh]; exact hw.hpos, by simp [a2, a1, hh, hbs], ?_, ?_⟩
  · intro x e hx
    show e ∈ ((addString t1 ns).buckets.modify (hash ns (addString t1 ns).hashspace) _).getD x [] ↔
      ∃ s', entName ((addString t1 ns).ents.modify i _) e = some s' ∧ hash s' (addString t1 ns).hashspace = x
    have hx' : x < t.hashspace := by
      have : x < (addString t1 ns).hashspace := hx
      rw [a1, hh] at this; exact this
    rw [a1, a2, a3, hh, he, getD_modify _ _ _ _ (by rw [hbs]; exact hash_lt ns hw.hpos), entName_modify_name]
    split
    · rename_i hxe
      simp only [List.mem_cons]
      rw [hbm x e hx']
      constructor
      · rintro (rfl | ⟨⟨s', h1, h2⟩, hne⟩)
        · exact ⟨ns, by rw [if_pos ⟨rfl, hi'⟩], hxe⟩
        · exact ⟨s', by rw [if_neg (fun h => hne h.1)]; exact h1, h2⟩
      · rintro ⟨s', h1, h2⟩
        by_cases c : e = i
        · exact Or.inl c
        · rw [if_neg (fun h => c h.1)] at h1; exact Or.inr ⟨⟨s', h1, h2⟩, c⟩
    · rename_i hxe
      rw [hbm x e hx']
      constructor
      · rintro ⟨⟨s', h1, h2⟩, hne⟩
        exact ⟨s', by rw [if_neg (fun h => hne h.1)]; exact h1, h2⟩
      · rintro ⟨s', h1, h2⟩
        by_cases c : e = i
        · rw [if_pos ⟨c, hi'⟩] at h1; cases h1; exact absurd h2 hxe
        · rw [if_neg (fun h => c h.1)] at h1; exact ⟨⟨s', h1, h2⟩, c⟩
  · intro e₁ e₂ s'
    show entName ((addString t1 ns).ents.modify i _) e₁ = some s' →
      entName ((addString t1 ns).ents.modify i _) e₂ = some s' → e₁ = e₂
    rw [a3, he, entName_modify_name, entName_modify_name]
    intro h1 h2
    by_cases c1 : e₁ = i <;> by_cases c2 : e₂ = i
    · rw [c1, c2]
    · rw [if_pos ⟨c1, hi'⟩] at h1; rw [if_neg (fun h => c2 h.1)] at h2
      cases h1; exact absurd h2 (hfr e₂)
    · rw [if_neg (fun h => c1 h.1)] at h1; rw [if_pos ⟨c2, hi'⟩] at h2
      cases h2; exact absurd h1 (hfr e₁)
    · rw [if_neg (fun h => c1 h.1)] at h1; rw [if_neg (fun h => c2 h.1)] at h2
      exact hw.uniq _ _ _ h1 h2

/-- `rename` keeps the invariant -/
theorem rename_wf {t : T} (hw : WF t) (i : Nat) (nn : Option Name) : WF (rename t i nn).1 := by
  unfold rename
  split
  · exact hw
  rename_i hi
  have hi' : i < t.ents.size := Nat.lt_of_not_le hi
  cases hk : nn.bind (lookup t) with
  | some k => exact hw
  | none =>
    simp only
    cases hold : nameAt t i with
    | none =>
      simp only
      cases nn with
      | none => exact rename_to_none_wf hw i hi' (unlinked_unnamed hw i hold)
      | some ns =>
        have hfr : ∀ e, nameAt t e ≠ some ns := (lookup_none_iff hw ns).mp (by simpa using hk)
        exact rename_to_some_wf hw i hi' (unlinked_unnamed hw i hold) ns hfr
    | some os =>
      simp only
      cases nn with
      | none => exact rename_to_none_wf hw i hi' (unlinked_named hw i os hold)
      | some ns =>
        have hfr : ∀ e, nameAt t e ≠ some ns := (lookup_none_iff hw ns).mp (by simpa using hk)
        exact rename_to_some_wf hw i hi' (unlinked_named hw i os hold) ns hfr

/-- the list-level specification of `rename` -/
def specRename (l : List (Option Name)) (i : Nat) (nn : Option Name) : List (Option Name) :=
  if i ≥ l.length then l
  else match nn with
    | some ns => if some ns ∈ l then l else l.set i (some ns)
    | none => l.set i none

theorem abs_modify_name (ents : Array Ent) (i : Nat) (nm : Option Name) :
    (ents.modify i (fun v => { v with name := nm })).toList.map (·.name) =
      (ents.toList.map (·.name)).set i nm := by
  apply List.ext_getElem?
  intro e
  simp only [List.getElem?_map, Array.getElem?_toList, Array.getElem?_modify, List.getElem?_set, List.length_map,
    Array.length_toList]
  by_cases h : i = e
  · subst h
    simp only [if_true]
    by_cases hi : i < ents.size
    · simp [hi]
    · simp [hi, Array.getElem?_eq_none (Nat.le_of_not_lt hi)]
  · simp [h]

theorem rename_abs {t : T} (hw : WF t) (i : Nat) (nn : Option Name) :
    abs (rename t i nn).1 = specRename (abs t) i nn := by
  unfold rename specRename
  rw [abs_length]
  split
  · rfl
  rename_i hi
  cases nn with
  | none =>
    simp only [Option.bind_none]
    cases hold : nameAt t i <;> (simp only; unfold abs; exact abs_modify_name _ i none)
  | some ns =>
    simp only [Option.bind_some]
    cases hl : lookup t ns with
    | some k =>
      have : some ns ∈ abs t := (abs_mem t ns).mpr ⟨k, (lookup_iff hw ns k).mp hl⟩
      simp [this]
    | none =>
      have hnm : some ns ∉ abs t := by
        intro h
        obtain ⟨e, he'⟩ := (abs_mem t ns).mp h
        exact (lookup_none_iff hw ns).mp hl e he'
      simp only [hnm, if_false]
      cases hold : nameAt t i with
      | none =>
        simp only
        unfold abs
        rw [(addString_same t ns).2.2.1]
        exact abs_modify_name _ i (some ns)
      | some os =>
        simp only
        unfold abs
        rw [(addString_same (removeFromBucket t i os) ns).2.2.1]
        exact abs_modify_name _ i (some ns)

end Qsx.Symtab
