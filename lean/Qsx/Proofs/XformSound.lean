import Qsx.Model.Xform
import Qsx.Proofs.Sums
import Mathlib.Tactic.Ring
import Mathlib.Tactic.Linarith
import Mathlib.Tactic.FieldSimp

namespace Qsx.Xform
open Qsx LP

/-! ### what "status and value" mean, and when two LPs have equivalent answers -/

def Infeasible (L : LP) (pinf ninf : Rat) : Prop := ¬ ∃ x, L.Feasible pinf ninf x
def IsOpt (L : LP) (pinf ninf : Rat) (v : Rat) : Prop :=
  ∃ x, L.Feasible pinf ninf x ∧ L.objv x = v ∧ ∀ x', L.Feasible pinf ninf x' → L.better v (L.objv x')
/-- feasible, and for every target some feasible point is strictly better than it -/
def Unbounded (L : LP) (pinf ninf : Rat) : Prop :=
  (∃ x, L.Feasible pinf ninf x) ∧ ∀ t : Rat, ∃ x, L.Feasible pinf ninf x ∧ ¬ L.better t (L.objv x)

/-- `L'` is a reformulation of `L` with objective relation `value' = a·value + b`; a negative `a`
goes with the opposite sense -/
structure Sim (L L' : LP) (pinf ninf : Rat) (a b : Rat) : Prop where
  ha : a ≠ 0
  sense : L'.isMin = (if 0 < a then L.isMin else !L.isMin)
  fwd : ∀ x, L.Feasible pinf ninf x → ∃ x', L'.Feasible pinf ninf x' ∧ L'.objv x' = a * L.objv x + b
  bwd : ∀ x', L'.Feasible pinf ninf x' → ∃ x, L.Feasible pinf ninf x ∧ L'.objv x' = a * L.objv x + b

theorem better_transfer {L L' : LP} {a b : Rat} (ha : a ≠ 0)
    (hs : L'.isMin = (if 0 < a then L.isMin else !L.isMin)) (v w : Rat) :
    L'.better (a * v + b) (a * w + b) ↔ L.better v w := by
  unfold LP.better
  rw [hs]
  by_cases hp : 0 < a
  · simp only [hp, ↓reduceIte]
    cases L.isMin <;> simp <;> constructor <;> intro h <;> nlinarith
  · have hn : a < 0 := lt_of_le_of_ne (not_lt.mp hp) ha
    simp only [hp, ↓reduceIte]
    cases L.isMin <;> simp <;> constructor <;> intro h <;> nlinarith

theorem Sim.infeasible {L L' : LP} {pinf ninf a b : Rat} (h : Sim L L' pinf ninf a b) :
    Infeasible L pinf ninf ↔ Infeasible L' pinf ninf := by
  unfold Infeasible
  constructor
  · intro hn ⟨x', hx'⟩; obtain ⟨x, hx, _⟩ := h.bwd x' hx'; exact hn ⟨x, hx⟩
  · intro hn ⟨x, hx⟩; obtain ⟨x', hx', _⟩ := h.fwd x hx; exact hn ⟨x', hx'⟩

theorem Sim.opt_fwd {L L' : LP} {pinf ninf a b : Rat} (h : Sim L L' pinf ninf a b) {v : Rat}
    (ho : IsOpt L pinf ninf v) : IsOpt L' pinf ninf (a * v + b) := by
  obtain ⟨x, hx, hv, hbest⟩ := ho
  obtain ⟨x', hx', ho'⟩ := h.fwd x hx
  refine ⟨x', hx', by rw [ho', hv], ?_⟩
  intro z' hz'
  obtain ⟨z, hz, hoz⟩ := h.bwd z' hz'
  rw [hoz]
  exact (better_transfer h.ha h.sense v (L.objv z)).mpr (hbest z hz)

theorem Sim.opt_bwd {L L' : LP} {pinf ninf a b : Rat} (h : Sim L L' pinf ninf a b) {v : Rat}
    (ho : IsOpt L' pinf ninf (a * v + b)) : IsOpt L pinf ninf v := by
  obtain ⟨x', hx', hv, hbest⟩ := ho
  obtain ⟨x, hx, ho'⟩ := h.bwd x' hx'
  have hvx : L.objv x = v := by
    have : a * L.objv x + b = a * v + b := by rw [← ho', hv]
    have : a * (L.objv x - v) = 0 := by linarith
    rcases mul_eq_zero.mp this with h0 | h0
    · exact absurd h0 h.ha
    · linarith
  refine ⟨x, hx, hvx, ?_⟩
  intro z hz
  obtain ⟨z', hz', hoz⟩ := h.fwd z hz
  have := hbest z' hz'
  rw [hoz] at this
  exact (better_transfer h.ha h.sense v (L.objv z)).mp this

/-- **Equivalent formulations have equivalent answers**: same status, value mapped by `v ↦ a·v + b`. -/
theorem Sim.optimal {L L' : LP} {pinf ninf a b : Rat} (h : Sim L L' pinf ninf a b) (v : Rat) :
    IsOpt L pinf ninf v ↔ IsOpt L' pinf ninf (a * v + b) := ⟨h.opt_fwd, h.opt_bwd⟩

theorem Sim.unbounded {L L' : LP} {pinf ninf a b : Rat} (h : Sim L L' pinf ninf a b) :
    Unbounded L pinf ninf ↔ Unbounded L' pinf ninf := by
  unfold Unbounded
  constructor
  · rintro ⟨⟨x, hx⟩, hu⟩
    obtain ⟨x', hx', _⟩ := h.fwd x hx
    refine ⟨⟨x', hx'⟩, fun t => ?_⟩
    obtain ⟨z, hz, hb⟩ := hu ((t - b) / a)
    obtain ⟨z', hz', hoz⟩ := h.fwd z hz
    refine ⟨z', hz', ?_⟩
    rw [hoz]
    have e : t = a * ((t - b) / a) + b := by field_simp [h.ha]; ring
    intro hc
    rw [e] at hc
    exact hb ((better_transfer h.ha h.sense _ _).mp hc)
  · rintro ⟨⟨x', hx'⟩, hu⟩
    obtain ⟨x, hx, _⟩ := h.bwd x' hx'
    refine ⟨⟨x, hx⟩, fun t => ?_⟩
    obtain ⟨z', hz', hb⟩ := hu (a * t + b)
    obtain ⟨z, hz, hoz⟩ := h.bwd z' hz'
    refine ⟨z, hz, ?_⟩
    intro hc
    apply hb
    rw [hoz]
    exact (better_transfer h.ha h.sense _ _).mpr hc

theorem Sim.refl (L : LP) (pinf ninf : Rat) : Sim L L pinf ninf 1 0 :=
  ⟨one_ne_zero, by simp, fun x hx => ⟨x, hx, by ring⟩, fun x hx => ⟨x, hx, by ring⟩⟩

/-- compositions of reformulations are reformulations -/
theorem Sim.trans {L L' L'' : LP} {pinf ninf a b a' b' : Rat}
    (h : Sim L L' pinf ninf a b) (h' : Sim L' L'' pinf ninf a' b') :
    Sim L L'' pinf ninf (a' * a) (a' * b + b') := by
  refine ⟨mul_ne_zero h'.ha h.ha, ?_, ?_, ?_⟩
  · rw [h'.sense, h.sense]
    have ha := h.ha; have ha' := h'.ha
    by_cases p : 0 < a <;> by_cases p' : 0 < a'
    · have : 0 < a' * a := mul_pos p' p
      simp [p, p', this]
    · have hn : a' < 0 := lt_of_le_of_ne (not_lt.mp p') ha'
      have : ¬ 0 < a' * a := not_lt.mpr (le_of_lt (mul_neg_of_neg_of_pos hn p))
      simp [p, p', this]
    · have hn : a < 0 := lt_of_le_of_ne (not_lt.mp p) ha
      have : ¬ 0 < a' * a := not_lt.mpr (le_of_lt (mul_neg_of_pos_of_neg p' hn))
      simp [p, p', this]
    · have hn : a < 0 := lt_of_le_of_ne (not_lt.mp p) ha
      have hn' : a' < 0 := lt_of_le_of_ne (not_lt.mp p') ha'
      have : 0 < a' * a := mul_pos_of_neg_of_neg hn' hn
      simp [p, p', this]
  · intro x hx
    obtain ⟨x', hx', e⟩ := h.fwd x hx
    obtain ⟨x'', hx'', e'⟩ := h'.fwd x' hx'
    exact ⟨x'', hx'', by rw [e', e]; ring⟩
  · intro x'' hx''
    obtain ⟨x', hx', e'⟩ := h'.bwd x'' hx''
    obtain ⟨x, hx, e⟩ := h.bwd x' hx'
    exact ⟨x, hx, by rw [e', e]; ring⟩

end Qsx.Xform
