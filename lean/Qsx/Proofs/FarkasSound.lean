import Qsx.Proofs.CertSound2

namespace Qsx
open ILP

/-- multiplying the rows by `y` and summing: `y·b = Σ_c (A_c·y) z_c` -/
theorem rows_identity (P : ILP) (hw : P.WF) (x s y : Nat → Rat) (hr : P.RowsHold x s) :
    sumTo P.nrows (fun i => P.b i * y i)
      = sumTo P.ns (fun j => entDot (P.scol j).ent y * x j)
        + sumTo P.nrows (fun i => entDot (P.lcol i).ent y * s i) := by
  rw [exchange P hw x y, ← sumTo_add]
  apply sumTo_congr
  intro i hi
  rw [lcol_entDot P hw y i hi, ← hr i hi]
  ring

theorem farkas_term {pinf ninf : Rat} {c : Col} {t v : Rat}
    (hok : farkasColOK pinf ninf c t = true)
    (hlo : c.lo ≠ ninf → c.lo ≤ v) (hup : c.up ≠ pinf → v ≤ c.up) :
    farkasContrib c t ≤ t * v := by
  unfold farkasColOK at hok
  simp only [Bool.and_eq_true, Bool.not_eq_true', Bool.and_eq_false_iff, beq_eq_false_iff_ne,
    decide_eq_false_iff_not, not_lt, ne_eq] at hok
  obtain ⟨h1, h2⟩ := hok
  unfold farkasContrib
  split
  · rename_i ht
    have hu : v ≤ c.up := by
      rcases h1 with h | h
      · exact hup h
      · linarith
    nlinarith
  · rename_i ht
    rcases lt_or_eq_of_le (not_lt.mp ht) with hp | hz
    · have hl : c.lo ≤ v := by
        rcases h2 with h | h
        · exact hlo h
        · linarith
      nlinarith
    · subst hz; simp

/-- **C02, core.**  If the Farkas test accepts `y`, the internal LP has no feasible point (bounds
equal to the encodings of ±infinity read as absent). -/
theorem infeasibleTest_sound {P : ILP} {pinf ninf : Rat} {ds : Array Rat}
    (hw : P.WF) (h : infeasibleTest P pinf ninf ds = true) :
    ¬ ∃ x s, P.Feasible pinf ninf x s := by
  rintro ⟨x, s, hf⟩
  unfold infeasibleTest at h
  simp only [Bool.and_eq_true, allTo_iff, decide_eq_true_eq] at h
  obtain ⟨⟨hS, hL⟩, hpos⟩ := h
  have hid := rows_identity P hw x s (rget ds) hf.rows
  have t1 : sumTo P.ns (fun j => farkasContrib (P.scol j) (farkasT (P.scol j) (rget ds)))
      ≤ sumTo P.ns (fun j => farkasT (P.scol j) (rget ds) * x j) :=
    sumTo_le (fun j hj => farkas_term (hS j hj) (hf.xlo j hj) (hf.xup j hj))
  have t2 : sumTo P.nrows (fun i => farkasContrib (P.lcol i) (farkasT (P.lcol i) (rget ds)))
      ≤ sumTo P.nrows (fun i => farkasT (P.lcol i) (rget ds) * s i) :=
    sumTo_le (fun i hi => farkas_term (hL i hi) (hf.slo i hi) (hf.sup i hi))
  have n1 : sumTo P.ns (fun j => farkasT (P.scol j) (rget ds) * x j)
      = - sumTo P.ns (fun j => entDot (P.scol j).ent (rget ds) * x j) := by
    rw [← neg_one_mul, ← sumTo_mul_left]; apply sumTo_congr; intro j _; unfold farkasT; ring
  have n2 : sumTo P.nrows (fun i => farkasT (P.lcol i) (rget ds) * s i)
      = - sumTo P.nrows (fun i => entDot (P.lcol i).ent (rget ds) * s i) := by
    rw [← neg_one_mul, ← sumTo_mul_left]; apply sumTo_congr; intro j _; unfold farkasT; ring
  unfold farkasObj at hpos
  linarith

end Qsx
