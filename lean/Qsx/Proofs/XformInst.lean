import Qsx.Proofs.XformSound
namespace Qsx.Xform
open Qsx LP

theorem size_tabA {α : Type} (n : Nat) (f : Nat → α) : (tabA n f).size = n := by simp [tabA]
theorem getD_tabA {α : Type} (n : Nat) (f : Nat → α) (k : Nat) (d : α) :
    (tabA n f).getD k d = if k < n then f k else d := by
  unfold tabA
  by_cases h : k < n
  · simp [h, Array.getD]
  · simp [h, Array.getD]
theorem getD_push {α : Type} (a : Array α) (r : α) (k : Nat) (d : α) :
    (a.push r).getD k d = if k < a.size then a.getD k d else if k = a.size then r else d := by
  by_cases h : k < a.size
  · simp [h, Array.getD, Array.getElem_push_lt, Nat.lt_succ_of_lt h]
  · by_cases h2 : k = a.size
    · subst h2; simp [Array.getD]
    · have : ¬ k < a.size + 1 := by omega
      simp [h, h2, Array.getD, this]

/-! ### row-wise rewrites that keep each row's meaning -/
theorem mapRows_nr (L : LP) (f : Nat → Row → Row) : (mapRows L f).nr = L.nr := by
  show (tabA L.nr _).size = _; rw [size_tabA]
theorem mapRows_row (L : LP) (f : Nat → Row → Row) (i : Nat) (hi : i < L.nr) : (mapRows L f).row i = f i (L.row i) := by
  show (tabA L.nr _).getD i default = _
  rw [getD_tabA, if_pos hi]

theorem mapRows_feasible (L : LP) (f : Nat → Row → Row) (pinf ninf : Rat) (x : Nat → Rat)
    (h : ∀ i, i < L.nr → (rowHolds (f i (L.row i)) (entDot (f i (L.row i)).ent x) ↔ rowHolds (L.row i) (entDot (L.row i).ent x))) :
    (mapRows L f).Feasible pinf ninf x ↔ L.Feasible pinf ninf x := by
  constructor
  · intro hf
    refine ⟨fun i hi => ?_, hf.lo, hf.up⟩
    have := hf.rows i (by rw [mapRows_nr]; exact hi)
    unfold LP.act at this ⊢
    rw [mapRows_row L f i hi] at this
    exact (h i hi).mp this
  · intro hf
    refine ⟨fun i hi => ?_, hf.lo, hf.up⟩
    rw [mapRows_nr] at hi
    unfold LP.act
    rw [mapRows_row L f i hi]
    exact (h i hi).mpr (hf.rows i hi)

theorem mapRows_sim (L : LP) (f : Nat → Row → Row) (pinf ninf : Rat)
    (h : ∀ x i, i < L.nr → (rowHolds (f i (L.row i)) (entDot (f i (L.row i)).ent x) ↔ rowHolds (L.row i) (entDot (L.row i).ent x))) :
    Sim L (mapRows L f) pinf ninf 1 0 :=
  ⟨one_ne_zero, by simp [mapRows],
   fun x hx => ⟨x, (mapRows_feasible L f pinf ninf x (h x)).mpr hx, by show L.objv x = _; ring⟩,
   fun x hx => ⟨x, (mapRows_feasible L f pinf ninf x (h x)).mp hx, by show L.objv x = _; ring⟩⟩

theorem entDot_scaleEnt (t : Rat) (ent : List (Nat × Rat)) (x : Nat → Rat) :
    entDot (scaleEnt t ent) x = t * entDot ent x := by
  induction ent with
  | nil => simp [entDot, scaleEnt, lsum]
  | cons e l ih =>
    unfold entDot scaleEnt at ih ⊢
    simp only [List.map_cons, lsum]
    rw [ih]; ring

theorem scaleRowOf_holds (t : Rat) (ht : t ≠ 0) (r : Row) (x : Nat → Rat) :
    rowHolds (scaleRowOf t r) (entDot (scaleRowOf t r).ent x) ↔ rowHolds r (entDot r.ent x) := by
  unfold scaleRowOf
  by_cases hp : 0 < t
  · simp only [hp, ↓reduceIte, entDot_scaleEnt]
    unfold rowHolds
    simp only
    split_ifs <;> constructor <;> intro h
    all_goals first
      | nlinarith
      | (constructor <;> nlinarith [h.1, h.2])
      | (have := mul_left_cancel₀ ht h; exact this)
      | (rw [h])
  · have hn : t < 0 := lt_of_le_of_ne (not_lt.mp hp) ht
    rw [if_neg hp]
    by_cases h1 : r.sense = 'L'
    · rw [if_pos h1]; unfold rowHolds; simp only [entDot_scaleEnt, h1]; simp; constructor <;> intro h <;> nlinarith
    · rw [if_neg h1]
      by_cases h2 : r.sense = 'G'
      · rw [if_pos h2]; unfold rowHolds; simp only [entDot_scaleEnt, h2]; simp; constructor <;> intro h <;> nlinarith
      · rw [if_neg h2]
        by_cases h3 : r.sense = 'E'
        · rw [if_pos h3]; unfold rowHolds; simp only [entDot_scaleEnt, h3]; simp
          intro h; exact absurd h ht
        · rw [if_neg h3]; unfold rowHolds; simp only [entDot_scaleEnt, h1, h2, h3, ↓reduceIte]
          constructor <;> intro h <;> constructor <;> nlinarith [h.1, h.2]

/-- multiplying a row by a non-zero rational (sense flipped for a negative one) -/
theorem scaleRow_sim (L : LP) (pinf ninf : Rat) (i : Nat) (t : Rat) (ht : t ≠ 0) :
    Sim L (scaleRow L i t) pinf ninf 1 0 := by
  apply mapRows_sim
  intro x k _
  by_cases h : k = i
  · simp only [h, ↓reduceIte]; exact scaleRowOf_holds t ht _ x
  · simp only [h, ↓reduceIte]
/-! ### negating the objective -/
theorem negObj_nc (L : LP) : (negObj L).nc = L.nc := by simp [negObj, LP.nc, size_tabA]
theorem negObj_col (L : LP) (j : Nat) (hj : j < L.nc) :
    (negObj L).col j = { (L.col j) with obj := -(L.col j).obj } := by
  show (tabA L.nc _).getD j default = _
  rw [getD_tabA, if_pos hj]

theorem negObj_feasible (L : LP) (pinf ninf : Rat) (x : Nat → Rat) :
    (negObj L).Feasible pinf ninf x ↔ L.Feasible pinf ninf x := by
  constructor
  · intro h
    refine ⟨h.rows, ?_, ?_⟩
    · intro j hj; have := h.lo j (by rw [negObj_nc]; exact hj); rw [negObj_col L j hj] at this; exact this
    · intro j hj; have := h.up j (by rw [negObj_nc]; exact hj); rw [negObj_col L j hj] at this; exact this
  · intro h
    refine ⟨h.rows, ?_, ?_⟩
    · intro j hj; rw [negObj_nc] at hj; rw [negObj_col L j hj]; exact h.lo j hj
    · intro j hj; rw [negObj_nc] at hj; rw [negObj_col L j hj]; exact h.up j hj

theorem negObj_objv (L : LP) (x : Nat → Rat) : (negObj L).objv x = -1 * L.objv x + 0 := by
  unfold LP.objv
  rw [negObj_nc, ← sumTo_mul_left, add_zero]
  apply sumTo_congr; intro j hj; rw [negObj_col L j hj]; ring

theorem negObj_sim (L : LP) (pinf ninf : Rat) : Sim L (negObj L) pinf ninf (-1) 0 :=
  ⟨by norm_num, by simp [negObj], fun x hx => ⟨x, (negObj_feasible L pinf ninf x).mpr hx, negObj_objv L x⟩,
   fun x hx => ⟨x, (negObj_feasible L pinf ninf x).mp hx, negObj_objv L x⟩⟩

/-! ### appended rows -/
theorem appendRow_nr (L : LP) (r : Row) : (appendRow L r).nr = L.nr + 1 := by
  show (L.rows.push r).size = _; simp [LP.nr]
theorem appendRow_row_lt (L : LP) (r : Row) (i : Nat) (hi : i < L.nr) : (appendRow L r).row i = L.row i := by
  show (L.rows.push r).getD i default = _
  rw [getD_push, if_pos (show i < L.rows.size from hi)]; rfl
theorem appendRow_row_last (L : LP) (r : Row) : (appendRow L r).row L.nr = r := by
  show (L.rows.push r).getD L.nr default = _
  rw [getD_push]; simp [LP.nr]

theorem appendRow_feasible (L : LP) (r : Row) (pinf ninf : Rat) (x : Nat → Rat) :
    (appendRow L r).Feasible pinf ninf x ↔ (L.Feasible pinf ninf x ∧ rowHolds r (entDot r.ent x)) := by
  constructor
  · intro hf
    refine ⟨⟨fun i hi => ?_, hf.lo, hf.up⟩, ?_⟩
    · have := hf.rows i (by rw [appendRow_nr]; omega)
      unfold LP.act at this ⊢
      rw [appendRow_row_lt L r i hi] at this; exact this
    · have := hf.rows L.nr (by rw [appendRow_nr]; omega)
      unfold LP.act at this
      rw [appendRow_row_last] at this; exact this
  · rintro ⟨hf, hr⟩
    refine ⟨fun i hi => ?_, hf.lo, hf.up⟩
    rw [appendRow_nr] at hi
    unfold LP.act
    by_cases h : i < L.nr
    · rw [appendRow_row_lt L r i h]; exact hf.rows i h
    · have : i = L.nr := by omega
      subst this; rw [appendRow_row_last]; exact hr

/-- appending a row that every feasible point satisfies anyway -/
theorem appendRow_sim (L : LP) (r : Row) (pinf ninf : Rat)
    (himp : ∀ x, L.Feasible pinf ninf x → rowHolds r (entDot r.ent x)) :
    Sim L (appendRow L r) pinf ninf 1 0 :=
  ⟨one_ne_zero, by simp [appendRow],
   fun x hx => ⟨x, (appendRow_feasible L r pinf ninf x).mpr ⟨hx, himp x hx⟩, by show L.objv x = _; ring⟩,
   fun x hx => ⟨x, ((appendRow_feasible L r pinf ninf x).mp hx).1, by show L.objv x = _; ring⟩⟩

theorem dupRow_sim (L : LP) (pinf ninf : Rat) (i : Nat) (hi : i < L.nr) : Sim L (dupRow L i) pinf ninf 1 0 :=
  appendRow_sim L (L.row i) pinf ninf (fun x hx => hx.rows i hi)

theorem relaxRow_holds (r : Row) (t : Rat) (ht : 0 ≤ t) (v : Rat) (h : rowHolds r v) : rowHolds (relaxRow r t) v := by
  unfold relaxRow
  unfold rowHolds at h
  by_cases h1 : r.sense = 'L'
  · rw [if_pos h1]; unfold rowHolds; simp only [h1, ↓reduceIte] at h ⊢; linarith
  · rw [if_neg h1]
    by_cases h2 : r.sense = 'G'
    · rw [if_pos h2]; unfold rowHolds; simp only [h2] at h ⊢; simp at h ⊢; linarith
    · rw [if_neg h2]
      by_cases h3 : r.sense = 'E'
      · rw [if_pos h3]; unfold rowHolds; simp only [h3] at h ⊢; simp at h ⊢; linarith
      · rw [if_neg h3]; unfold rowHolds; simp only [h1, h2, h3, ↓reduceIte] at h ⊢
        constructor <;> linarith [h.1, h.2]

theorem relaxRow_ent (r : Row) (t : Rat) : (relaxRow r t).ent = r.ent := by
  unfold relaxRow; split_ifs <;> rfl

theorem addRedundant_sim (L : LP) (pinf ninf : Rat) (i : Nat) (t : Rat) (hi : i < L.nr) (ht : 0 ≤ t) :
    Sim L (addRedundant L i t) pinf ninf 1 0 := by
  apply appendRow_sim
  intro x hx
  rw [relaxRow_ent]
  exact relaxRow_holds _ t ht _ (hx.rows i hi)

/-- an equality written as two inequalities -/
theorem splitEq_sim (L : LP) (pinf ninf : Rat) (i : Nat) (hi : i < L.nr) : Sim L (splitEq L i) pinf ninf 1 0 := by
  unfold splitEq
  by_cases hE : (L.row i).sense = 'E'
  · rw [if_pos hE]
    have key : ∀ x, (appendRow (mapRows L fun k r => if k = i then { r with sense := 'L' } else r) { (L.row i) with sense := 'G' }).Feasible pinf ninf x
        ↔ L.Feasible pinf ninf x := by
      intro x
      rw [appendRow_feasible]
      constructor
      · rintro ⟨hf, hg⟩
        refine ⟨fun k hk => ?_, hf.lo, hf.up⟩
        have hk' := hf.rows k (by rw [mapRows_nr]; exact hk)
        unfold LP.act at hk' ⊢
        rw [mapRows_row _ _ k hk] at hk'
        by_cases hki : k = i
        · subst hki
          simp only [↓reduceIte] at hk'
          unfold rowHolds at hk' hg ⊢
          simp only [hE] at hk' hg ⊢
          simp at hk' hg ⊢
          linarith
        · simp only [hki, ↓reduceIte] at hk'; exact hk'
      · intro hf
        have hi' := hf.rows i hi
        unfold LP.act at hi'
        refine ⟨⟨fun k hk => ?_, hf.lo, hf.up⟩, ?_⟩
        · rw [mapRows_nr] at hk
          unfold LP.act
          rw [mapRows_row _ _ k hk]
          by_cases hki : k = i
          · subst hki
            simp only [↓reduceIte]
            unfold rowHolds at hi' ⊢
            simp only [hE] at hi' ⊢
            simp at hi' ⊢
            linarith
          · simp only [hki, ↓reduceIte]; exact hf.rows k hk
        · unfold rowHolds at hi' ⊢
          simp only [hE] at hi' ⊢
          simp at hi' ⊢
          linarith
    exact ⟨one_ne_zero, by simp [appendRow, mapRows],
      fun x hx => ⟨x, (key x).mpr hx, by show L.objv x = _; ring⟩,
      fun x hx => ⟨x, (key x).mp hx, by show L.objv x = _; ring⟩⟩
  · rw [if_neg hE]; exact Sim.refl L pinf ninf

/-! ### shifting a variable -/
def shiftPt (j : Nat) (d : Rat) (x : Nat → Rat) : Nat → Rat := fun k => if k = j then x k - d else x k

theorem entDot_shiftPt (ent : List (Nat × Rat)) (j : Nat) (d : Rat) (x : Nat → Rat) :
    entDot ent (shiftPt j d x) = entDot ent x - d * entAt ent j := by
  induction ent with
  | nil => simp [entDot, entAt, lsum]
  | cons e l ih =>
    unfold entDot entAt at ih ⊢
    simp only [List.map_cons, lsum]
    rw [ih]
    unfold shiftPt
    by_cases h : e.1 = j
    · simp [h]; ring
    · simp [h]; ring

theorem shiftVar_nc (L : LP) (pinf ninf : Rat) (j : Nat) (d : Rat) : (shiftVar L pinf ninf j d).nc = L.nc := by
  show (tabA L.nc _).size = _; rw [size_tabA]
theorem shiftVar_nr (L : LP) (pinf ninf : Rat) (j : Nat) (d : Rat) : (shiftVar L pinf ninf j d).nr = L.nr := by
  show (tabA L.nr _).size = _; rw [size_tabA]
theorem shiftVar_col (L : LP) (pinf ninf : Rat) (j : Nat) (d : Rat) (k : Nat) (hk : k < L.nc) :
    (shiftVar L pinf ninf j d).col k =
      if k = j then { (L.col k) with lo := shiftBound ninf d (L.col k).lo, up := shiftBound pinf d (L.col k).up } else L.col k := by
  show (tabA L.nc _).getD k default = _
  rw [getD_tabA, if_pos hk]
theorem shiftVar_row (L : LP) (pinf ninf : Rat) (j : Nat) (d : Rat) (i : Nat) (hi : i < L.nr) :
    (shiftVar L pinf ninf j d).row i = { (L.row i) with rhs := (L.row i).rhs - d * entAt (L.row i).ent j } := by
  show (tabA L.nr _).getD i default = _
  rw [getD_tabA, if_pos hi]

theorem rowHolds_shift (r : Row) (c v : Rat) :
    rowHolds { r with rhs := r.rhs - c } (v - c) ↔ rowHolds r v := by
  unfold rowHolds
  simp only
  split_ifs <;> constructor <;> intro h
  all_goals first
    | linarith
    | (constructor <;> linarith [h.1, h.2])

theorem shiftVar_feasible (L : LP) (pinf ninf : Rat) (j : Nat) (d : Rat) (x : Nat → Rat)
    (hlo : (L.col j).lo ≠ ninf → (L.col j).lo - d ≠ ninf) (hup : (L.col j).up ≠ pinf → (L.col j).up - d ≠ pinf) :
    (shiftVar L pinf ninf j d).Feasible pinf ninf (shiftPt j d x) ↔ L.Feasible pinf ninf x := by
  have hrow : ∀ i, i < L.nr → (rowHolds ((shiftVar L pinf ninf j d).row i) ((shiftVar L pinf ninf j d).act (shiftPt j d x) i) ↔
      rowHolds (L.row i) (L.act x i)) := by
    intro i hi
    unfold LP.act
    rw [shiftVar_row L pinf ninf j d i hi]
    simp only [entDot_shiftPt]
    exact rowHolds_shift _ _ _
  constructor
  · intro hf
    refine ⟨fun i hi => (hrow i hi).mp (hf.rows i (by rw [shiftVar_nr]; exact hi)), ?_, ?_⟩
    · intro k hk hne
      have := hf.lo k (by rw [shiftVar_nc]; exact hk)
      rw [shiftVar_col L pinf ninf j d k hk] at this
      by_cases hkj : k = j
      · subst hkj
        simp only [↓reduceIte, shiftBound, if_neg hne, shiftPt] at this
        have := this (hlo hne); linarith
      · simp only [hkj, ↓reduceIte, shiftPt] at this; exact this hne
    · intro k hk hne
      have := hf.up k (by rw [shiftVar_nc]; exact hk)
      rw [shiftVar_col L pinf ninf j d k hk] at this
      by_cases hkj : k = j
      · subst hkj
        simp only [↓reduceIte, shiftBound, if_neg hne, shiftPt] at this
        have := this (hup hne); linarith
      · simp only [hkj, ↓reduceIte, shiftPt] at this; exact this hne
  · intro hf
    refine ⟨fun i hi => ?_, ?_, ?_⟩
    · rw [shiftVar_nr] at hi; exact (hrow i hi).mpr (hf.rows i hi)
    · intro k hk hne
      rw [shiftVar_nc] at hk
      rw [shiftVar_col L pinf ninf j d k hk] at hne ⊢
      by_cases hkj : k = j
      · subst hkj
        simp only [↓reduceIte, shiftBound, shiftPt] at hne ⊢
        by_cases hinf : (L.col k).lo = ninf
        · rw [if_pos hinf] at hne; exact absurd rfl hne
        · rw [if_neg hinf]; have := hf.lo k hk hinf; linarith
      · simp only [hkj, ↓reduceIte, shiftPt] at hne ⊢; exact hf.lo k hk hne
    · intro k hk hne
      rw [shiftVar_nc] at hk
      rw [shiftVar_col L pinf ninf j d k hk] at hne ⊢
      by_cases hkj : k = j
      · subst hkj
        simp only [↓reduceIte, shiftBound, shiftPt] at hne ⊢
        by_cases hinf : (L.col k).up = pinf
        · rw [if_pos hinf] at hne; exact absurd rfl hne
        · rw [if_neg hinf]; have := hf.up k hk hinf; linarith
      · simp only [hkj, ↓reduceIte, shiftPt] at hne ⊢; exact hf.up k hk hne

theorem shiftVar_objv (L : LP) (pinf ninf : Rat) (j : Nat) (d : Rat) (hj : j < L.nc) (x : Nat → Rat) :
    (shiftVar L pinf ninf j d).objv (shiftPt j d x) = 1 * L.objv x + -((L.col j).obj * d) := by
  unfold LP.objv
  rw [shiftVar_nc]
  have e : ∀ k, k < L.nc → ((shiftVar L pinf ninf j d).col k).obj * shiftPt j d x k
      = (L.col k).obj * x k - (if j = k then (L.col k).obj * d else 0) := by
    intro k hk
    rw [shiftVar_col L pinf ninf j d k hk]
    unfold shiftPt
    by_cases h : k = j
    · subst h; simp; ring
    · have : ¬ j = k := fun e => h e.symm
      simp [h, this]
  rw [sumTo_congr e, sumTo_sub, sumTo_ite_eq L.nc j hj]; ring

/-- substituting `x_j = x'_j + d` -/
theorem shiftVar_sim (L : LP) (pinf ninf : Rat) (j : Nat) (d : Rat) (hj : j < L.nc)
    (hlo : (L.col j).lo ≠ ninf → (L.col j).lo - d ≠ ninf) (hup : (L.col j).up ≠ pinf → (L.col j).up - d ≠ pinf) :
    Sim L (shiftVar L pinf ninf j d) pinf ninf 1 (-((L.col j).obj * d)) := by
  refine ⟨one_ne_zero, by simp [shiftVar], ?_, ?_⟩
  · intro x hx
    exact ⟨shiftPt j d x, (shiftVar_feasible L pinf ninf j d x hlo hup).mpr hx, shiftVar_objv L pinf ninf j d hj x⟩
  · intro x' hx'
    have e : shiftPt j d (shiftPt j (-d) x') = x' := by
      funext k; unfold shiftPt; by_cases h : k = j <;> simp [h]
    refine ⟨shiftPt j (-d) x', ?_, ?_⟩
    · rw [← e] at hx'; exact (shiftVar_feasible L pinf ninf j d _ hlo hup).mp hx'
    · have := shiftVar_objv L pinf ninf j d hj (shiftPt j (-d) x'); rw [e] at this; exact this

/-! ### rescaling a variable -/
def scalePt (j : Nat) (m : Rat) (x : Nat → Rat) : Nat → Rat := fun k => if k = j then x k / m else x k

theorem entDot_scalePt (ent : List (Nat × Rat)) (j : Nat) (m : Rat) (hm : m ≠ 0) (x : Nat → Rat) :
    entDot (ent.map fun e => if e.1 = j then (e.1, m * e.2) else e) (scalePt j m x) = entDot ent x := by
  induction ent with
  | nil => simp [entDot, lsum]
  | cons e l ih =>
    unfold entDot at ih ⊢
    simp only [List.map_cons, lsum]
    rw [ih]
    unfold scalePt
    by_cases h : e.1 = j
    · simp [h]; field_simp
    · simp [h]

theorem scaleVar_nc (L : LP) (pinf ninf : Rat) (j : Nat) (m : Rat) : (scaleVar L pinf ninf j m).nc = L.nc := by
  show (tabA L.nc _).size = _; rw [size_tabA]
theorem scaleVar_nr (L : LP) (pinf ninf : Rat) (j : Nat) (m : Rat) : (scaleVar L pinf ninf j m).nr = L.nr := by
  show (tabA L.nr _).size = _; rw [size_tabA]
theorem scaleVar_col (L : LP) (pinf ninf : Rat) (j : Nat) (m : Rat) (k : Nat) (hk : k < L.nc) :
    (scaleVar L pinf ninf j m).col k =
      if k = j then { obj := m * (L.col k).obj, lo := scaleBound ninf m (L.col k).lo, up := scaleBound pinf m (L.col k).up } else L.col k := by
  show (tabA L.nc _).getD k default = _
  rw [getD_tabA, if_pos hk]
theorem scaleVar_row (L : LP) (pinf ninf : Rat) (j : Nat) (m : Rat) (i : Nat) (hi : i < L.nr) :
    (scaleVar L pinf ninf j m).row i = { (L.row i) with ent := (L.row i).ent.map fun e => if e.1 = j then (e.1, m * e.2) else e } := by
  show (tabA L.nr _).getD i default = _
  rw [getD_tabA, if_pos hi]

theorem div_le_div_pos {a b m : Rat} (hm : 0 < m) : a / m ≤ b / m ↔ a ≤ b := by
  constructor
  · intro h
    have := mul_le_mul_of_nonneg_right h hm.le
    rwa [div_mul_cancel₀ _ hm.ne', div_mul_cancel₀ _ hm.ne'] at this
  · intro h; exact div_le_div_of_nonneg_right h hm.le

theorem scaleVar_feasible (L : LP) (pinf ninf : Rat) (j : Nat) (m : Rat) (hm : 0 < m) (x : Nat → Rat)
    (hlo : (L.col j).lo ≠ ninf → (L.col j).lo / m ≠ ninf) (hup : (L.col j).up ≠ pinf → (L.col j).up / m ≠ pinf) :
    (scaleVar L pinf ninf j m).Feasible pinf ninf (scalePt j m x) ↔ L.Feasible pinf ninf x := by
  have hrow : ∀ i, i < L.nr → (rowHolds ((scaleVar L pinf ninf j m).row i) ((scaleVar L pinf ninf j m).act (scalePt j m x) i) ↔
      rowHolds (L.row i) (L.act x i)) := by
    intro i hi
    unfold LP.act
    rw [scaleVar_row L pinf ninf j m i hi]
    simp only [entDot_scalePt _ _ _ hm.ne']
    unfold rowHolds; simp only
  constructor
  · intro hf
    refine ⟨fun i hi => (hrow i hi).mp (hf.rows i (by rw [scaleVar_nr]; exact hi)), ?_, ?_⟩
    · intro k hk hne
      have := hf.lo k (by rw [scaleVar_nc]; exact hk)
      rw [scaleVar_col L pinf ninf j m k hk] at this
      by_cases hkj : k = j
      · subst hkj
        simp only [↓reduceIte, scaleBound, if_neg hne, scalePt] at this
        exact (div_le_div_pos hm).mp (this (hlo hne))
      · simp only [hkj, ↓reduceIte, scalePt] at this; exact this hne
    · intro k hk hne
      have := hf.up k (by rw [scaleVar_nc]; exact hk)
      rw [scaleVar_col L pinf ninf j m k hk] at this
      by_cases hkj : k = j
      · subst hkj
        simp only [↓reduceIte, scaleBound, if_neg hne, scalePt] at this
        exact (div_le_div_pos hm).mp (this (hup hne))
      · simp only [hkj, ↓reduceIte, scalePt] at this; exact this hne
  · intro hf
    refine ⟨fun i hi => ?_, ?_, ?_⟩
    · rw [scaleVar_nr] at hi; exact (hrow i hi).mpr (hf.rows i hi)
    · intro k hk hne
      rw [scaleVar_nc] at hk
      rw [scaleVar_col L pinf ninf j m k hk] at hne ⊢
      by_cases hkj : k = j
      · subst hkj
        simp only [↓reduceIte, scaleBound, scalePt] at hne ⊢
        by_cases hinf : (L.col k).lo = ninf
        · rw [if_pos hinf] at hne; exact absurd rfl hne
        · rw [if_neg hinf]; exact (div_le_div_pos hm).mpr (hf.lo k hk hinf)
      · simp only [hkj, ↓reduceIte, scalePt] at hne ⊢; exact hf.lo k hk hne
    · intro k hk hne
      rw [scaleVar_nc] at hk
      rw [scaleVar_col L pinf ninf j m k hk] at hne ⊢
      by_cases hkj : k = j
      · subst hkj
        simp only [↓reduceIte, scaleBound, scalePt] at hne ⊢
        by_cases hinf : (L.col k).up = pinf
        · rw [if_pos hinf] at hne; exact absurd rfl hne
        · rw [if_neg hinf]; exact (div_le_div_pos hm).mpr (hf.up k hk hinf)
      · simp only [hkj, ↓reduceIte, scalePt] at hne ⊢; exact hf.up k hk hne

theorem scaleVar_objv (L : LP) (pinf ninf : Rat) (j : Nat) (m : Rat) (hm : m ≠ 0) (x : Nat → Rat) :
    (scaleVar L pinf ninf j m).objv (scalePt j m x) = 1 * L.objv x + 0 := by
  unfold LP.objv
  rw [scaleVar_nc, one_mul, add_zero]
  apply sumTo_congr
  intro k hk
  rw [scaleVar_col L pinf ninf j m k hk]
  unfold scalePt
  by_cases h : k = j
  · simp [h]; field_simp
  · simp [h]

/-- substituting `x_j = m·x'_j`, `m > 0` -/
theorem scaleVar_sim (L : LP) (pinf ninf : Rat) (j : Nat) (m : Rat) (hm : 0 < m)
    (hlo : (L.col j).lo ≠ ninf → (L.col j).lo / m ≠ ninf) (hup : (L.col j).up ≠ pinf → (L.col j).up / m ≠ pinf) :
    Sim L (scaleVar L pinf ninf j m) pinf ninf 1 0 := by
  refine ⟨one_ne_zero, by simp [scaleVar], ?_, ?_⟩
  · intro x hx
    exact ⟨scalePt j m x, (scaleVar_feasible L pinf ninf j m hm x hlo hup).mpr hx, scaleVar_objv L pinf ninf j m hm.ne' x⟩
  · intro x' hx'
    have e : scalePt j m (scalePt j (1 / m) x') = x' := by
      funext k; unfold scalePt; by_cases h : k = j
      · simp [h]; field_simp
      · simp [h]
    refine ⟨scalePt j (1 / m) x', ?_, ?_⟩
    · rw [← e] at hx'; exact (scaleVar_feasible L pinf ninf j m hm _ hlo hup).mp hx'
    · have := scaleVar_objv L pinf ninf j m hm.ne' (scalePt j (1 / m) x'); rw [e] at this; exact this

/-! ### permuting rows -/
theorem permRows_nr (L : LP) (σ : Array Nat) : (permRows L σ).nr = L.nr := by
  show (tabA L.nr _).size = _; rw [size_tabA]
theorem permRows_row (L : LP) (σ : Array Nat) (k : Nat) (hk : k < L.nr) : (permRows L σ).row k = L.row (nget σ k) := by
  show (tabA L.nr _).getD k default = _
  rw [getD_tabA, if_pos hk]

/-- row order does not matter: `σ` maps `[0,nr)` onto `[0,nr)` -/
theorem permRows_sim (L : LP) (pinf ninf : Rat) (σ : Array Nat)
    (hin : ∀ k, k < L.nr → nget σ k < L.nr) (honto : ∀ i, i < L.nr → ∃ k, k < L.nr ∧ nget σ k = i) :
    Sim L (permRows L σ) pinf ninf 1 0 := by
  have key : ∀ x, (permRows L σ).Feasible pinf ninf x ↔ L.Feasible pinf ninf x := by
    intro x
    constructor
    · intro hf
      refine ⟨fun i hi => ?_, hf.lo, hf.up⟩
      obtain ⟨k, hk, e⟩ := honto i hi
      have := hf.rows k (by rw [permRows_nr]; exact hk)
      unfold LP.act at this ⊢
      rw [permRows_row L σ k hk, e] at this; exact this
    · intro hf
      refine ⟨fun k hk => ?_, hf.lo, hf.up⟩
      rw [permRows_nr] at hk
      unfold LP.act
      rw [permRows_row L σ k hk]
      exact hf.rows _ (hin k hk)
  exact ⟨one_ne_zero, by simp [permRows],
    fun x hx => ⟨x, (key x).mpr hx, by show L.objv x = _; ring⟩,
    fun x hx => ⟨x, (key x).mp hx, by show L.objv x = _; ring⟩⟩

/-! ### permuting columns -/
theorem sumTo_perm (n : Nat) (σ τ : Nat → Nat) (h1 : ∀ k, k < n → σ k < n ∧ τ (σ k) = k)
    (h2 : ∀ j, j < n → τ j < n ∧ σ (τ j) = j) (f : Nat → Rat) :
    sumTo n (fun k => f (σ k)) = sumTo n f := by
  rw [sumTo_eq_sum, sumTo_eq_sum]
  exact Finset.sum_nbij' σ τ
    (fun a ha => Finset.mem_range.mpr (h1 a (Finset.mem_range.mp ha)).1)
    (fun a ha => Finset.mem_range.mpr (h2 a (Finset.mem_range.mp ha)).1)
    (fun a ha => (h1 a (Finset.mem_range.mp ha)).2)
    (fun a ha => (h2 a (Finset.mem_range.mp ha)).2)
    (fun a _ => rfl)

theorem permCols_nc (L : LP) (σ : Array Nat) : (permCols L σ).nc = L.nc := by
  show (tabA L.nc _).size = _; rw [size_tabA]
theorem permCols_nr (L : LP) (σ : Array Nat) : (permCols L σ).nr = L.nr := by
  show (tabA L.nr _).size = _; rw [size_tabA]
theorem permCols_col (L : LP) (σ : Array Nat) (k : Nat) (hk : k < L.nc) : (permCols L σ).col k = L.col (nget σ k) := by
  show (tabA L.nc _).getD k default = _
  rw [getD_tabA, if_pos hk]
theorem permCols_row (L : LP) (σ : Array Nat) (i : Nat) (hi : i < L.nr) :
    (permCols L σ).row i = { (L.row i) with ent := (L.row i).ent.map fun e => (invAt σ e.1, e.2) } := by
  show (tabA L.nr _).getD i default = _
  rw [getD_tabA, if_pos hi]

theorem entDot_reindex (ent : List (Nat × Rat)) (τ : Nat → Nat) (x' : Nat → Rat) :
    entDot (ent.map fun e => (τ e.1, e.2)) x' = entDot ent (fun j => x' (τ j)) := by
  induction ent with
  | nil => simp [entDot, lsum]
  | cons e l ih =>
    unfold entDot at ih ⊢
    simp only [List.map_cons, lsum]
    rw [ih]

theorem entDot_congr_mem (ent : List (Nat × Rat)) (x y : Nat → Rat) (h : ∀ e ∈ ent, x e.1 = y e.1) :
    entDot ent x = entDot ent y := by
  induction ent with
  | nil => simp [entDot, lsum]
  | cons e l ih =>
    unfold entDot at ih ⊢
    simp only [List.map_cons, lsum]
    rw [ih (fun e' he' => h e' (List.mem_cons_of_mem _ he')), h e (List.mem_cons_self ..)]

/-- column order does not matter: `σ` is a permutation of `[0,nc)` with inverse `invAt σ`, and the
rows only mention existing columns -/
theorem permCols_sim (L : LP) (pinf ninf : Rat) (σ : Array Nat)
    (h1 : ∀ k, k < L.nc → nget σ k < L.nc ∧ invAt σ (nget σ k) = k)
    (h2 : ∀ j, j < L.nc → invAt σ j < L.nc ∧ nget σ (invAt σ j) = j)
    (hent : ∀ i, i < L.nr → ∀ e ∈ (L.row i).ent, e.1 < L.nc) :
    Sim L (permCols L σ) pinf ninf 1 0 := by
  have hobj : ∀ x' : Nat → Rat, (permCols L σ).objv x' = L.objv (fun j => x' (invAt σ j)) := by
    intro x'
    unfold LP.objv
    rw [permCols_nc]
    have e : ∀ k, k < L.nc → ((permCols L σ).col k).obj * x' k
        = (fun j => (L.col j).obj * x' (invAt σ j)) (nget σ k) := by
      intro k hk
      rw [permCols_col L σ k hk]
      simp only [(h1 k hk).2]
    rw [sumTo_congr e]
    exact sumTo_perm L.nc (nget σ) (invAt σ) h1 h2 (fun j => (L.col j).obj * x' (invAt σ j))
  refine ⟨one_ne_zero, by simp [permCols], ?_, ?_⟩
  · intro x hx
    refine ⟨fun k => x (nget σ k), ⟨fun i hi => ?_, ?_, ?_⟩, ?_⟩
    · rw [permCols_nr] at hi
      unfold LP.act
      rw [permCols_row L σ i hi]
      simp only [entDot_reindex]
      rw [entDot_congr_mem (L.row i).ent _ x (fun e he => by simp only [(h2 e.1 (hent i hi e he)).2])]
      exact hx.rows i hi
    · intro k hk hne
      rw [permCols_nc] at hk
      rw [permCols_col L σ k hk] at hne ⊢
      exact hx.lo _ (h1 k hk).1 hne
    · intro k hk hne
      rw [permCols_nc] at hk
      rw [permCols_col L σ k hk] at hne ⊢
      exact hx.up _ (h1 k hk).1 hne
    · rw [hobj, one_mul, add_zero]
      unfold LP.objv
      apply sumTo_congr
      intro j hj
      simp only [(h2 j hj).2]
  · intro x' hx'
    refine ⟨fun j => x' (invAt σ j), ⟨fun i hi => ?_, ?_, ?_⟩, by rw [hobj]; ring⟩
    · have := hx'.rows i (by rw [permCols_nr]; exact hi)
      unfold LP.act at this ⊢
      rw [permCols_row L σ i hi] at this
      simp only [entDot_reindex] at this
      exact this
    · intro j hj hne
      have := hx'.lo (invAt σ j) (by rw [permCols_nc]; exact (h2 j hj).1)
      rw [permCols_col L σ _ (h2 j hj).1, (h2 j hj).2] at this
      exact this hne
    · intro j hj hne
      have := hx'.up (invAt σ j) (by rw [permCols_nc]; exact (h2 j hj).1)
      rw [permCols_col L σ _ (h2 j hj).1, (h2 j hj).2] at this
      exact this hne
end Qsx.Xform
