/-
`ILLsymboltab_index_reset` / `ILLsymboltab_getindex` (symtab.c:198-265): after a reset with a list
of distinct names that are all in the table, `getindex` of the j-th name answers j.
-/
import Qsx.Proofs.SymtabSound

namespace Qsx.Symtab

theorem entName_modify_index (ents : Array Ent) (k : Nat) (i : Int) (e : Nat) :
    entName (ents.modify k (fun v => { v with index := i })) e = entName ents e := by
  unfold entName
  rw [Array.getElem?_modify]
  split
  · rename_i h; subst h
    cases ents[k]? <;> rfl
  · rfl

theorem setIndex_wf {t : T} (hw : WF t) (k : Nat) (i : Int) :
    WF { t with ents := t.ents.modify k (fun v => { v with index := i }) } := by
  refine ⟨hw.hpos, hw.bsize, ?_, ?_⟩
  · intro x e hx
    show e ∈ t.buckets.getD x [] ↔ ∃ s, entName (t.ents.modify k _) e = some s ∧ _
    rw [entName_modify_index]
    exact hw.mem x e hx
  · intro e₁ e₂ s
    show entName (t.ents.modify k _) e₁ = some s → entName (t.ents.modify k _) e₂ = some s → e₁ = e₂
    rw [entName_modify_index, entName_modify_index]
    exact hw.uniq e₁ e₂ s

theorem setIndex_lookup {t : T} (hw : WF t) (k : Nat) (i : Int) (s : Name) :
    lookup { t with ents := t.ents.modify k (fun v => { v with index := i }) } s = lookup t s := by
  cases hl : lookup t s with
  | some e =>
    apply (lookup_iff (setIndex_wf hw k i) s e).mpr
    show entName (t.ents.modify k _) e = some s
    rw [entName_modify_index]
    exact (lookup_iff hw s e).mp hl
  | none =>
    apply (lookup_none_iff (setIndex_wf hw k i) s).mpr
    intro e
    show entName (t.ents.modify k _) e ≠ some s
    rw [entName_modify_index]
    exact (lookup_none_iff hw s).mp hl e

def indexAt (t : T) (k : Nat) : Int := (t.ents.getD k default).index

theorem indexAt_modify (t : T) (k : Nat) (i : Int) (k' : Nat) (hk : k < t.ents.size) :
    indexAt { t with ents := t.ents.modify k (fun v => { v with index := i }) } k' =
      if k' = k then i else indexAt t k' := by
  unfold indexAt
  simp only [Array.getD_eq_getD_getElem?, Array.getElem?_modify]
  by_cases h : k = k'
  · subst h; simp [hk]
  · rw [if_neg h, if_neg (fun h' => h h'.symm)]

/-- the loop of `index_reset` from position `i`: every name is found, gets its position, and the
positions already handed out stay -/
theorem indexReset_go (names : List Name) : ∀ (t : T) (i : Nat), WF t →
    (∀ s ∈ names, ∃ k, lookup t s = some k) → names.Nodup →
    (indexReset.go t i names).2 = 0 ∧ WF (indexReset.go t i names).1 ∧
    (indexReset.go t i names).1.indexOk = true ∧
    (∀ s, lookup (indexReset.go t i names).1 s = lookup t s) ∧
    (∀ (j : Nat) s, names[j]? = some s → ∀ k, lookup t s = some k →
        indexAt (indexReset.go t i names).1 k = ((i + j : Nat) : Int)) ∧
    (∀ k, (∀ s ∈ names, lookup t s ≠ some k) → indexAt (indexReset.go t i names).1 k = indexAt t k) := by
  induction names with
  | nil =>
    intro t i hw _ _
    refine ⟨rfl, wf_of_same hw rfl rfl rfl, rfl, fun s => rfl, ?_, fun k _ => rfl⟩
    intro j s h; simp at h
  | cons s rest ih =>
    intro t i hw hall hnd
    obtain ⟨k, hk⟩ := hall s (List.mem_cons_self ..)
    have hklt : k < t.ents.size := nameAt_lt ((lookup_iff hw s k).mp hk)
    unfold indexReset.go
    rw [hk]
    simp only
    have hw' := setIndex_wf hw k (i : Int)
    have hlk := setIndex_lookup hw k (i : Int)
    have hall' : ∀ s' ∈ rest, ∃ k', lookup { t with ents := t.ents.modify k (fun v => { v with index := (i : Int) }) } s' = some k' := by
      intro s' hs'
      rw [hlk]; exact hall s' (List.mem_cons_of_mem _ hs')
    obtain ⟨h1, h2, h3, h4, h5, h6⟩ := ih _ (i + 1) hw' hall' (List.nodup_cons.mp hnd).2
    refine ⟨h1, h2, h3, fun s' => by rw [h4, hlk], ?_, ?_⟩
    · intro j s' hj k' hk'
      cases j with
      | zero =>
        simp at hj
        subst hj
        rw [hk] at hk'; cases hk'
        -- k is not touched by the rest: names are distinct, so no other name looks up to k
        rw [h6 k (by
          intro s'' hs'' hc
          rw [hlk] at hc
          have e1 := (lookup_iff hw s'' k).mp hc
          have e2 := (lookup_iff hw s k).mp hk
          rw [e1] at e2
          cases e2
          exact (List.nodup_cons.mp hnd).1 hs'')]
        rw [indexAt_modify t k (i : Int) k hklt, if_pos rfl]
        simp
      | succ j' =>
        have hj' : rest[j']? = some s' := by simpa using hj
        have := h5 j' s' hj' k' (by rw [hlk]; exact hk')
        have e : i + 1 + j' = i + (j' + 1) := by omega
        rw [this, e]
    · intro k' hk'
      rw [h6 k' (by
        intro s'' hs''
        rw [hlk]; exact hk' s'' (List.mem_cons_of_mem _ hs''))]
      rw [indexAt_modify t k (i : Int) k' hklt]
      rw [if_neg]
      intro hc
      exact hk' s (List.mem_cons_self ..) (by rw [hc]; exact hk)

/-- after `index_reset` with distinct names that are all present (and a table of matching size),
`getindex` of the j-th name is j -/
theorem getindex_after_reset {t : T} (hw : WF t) (names : List Name)
    (hsz : t.ents.size = names.length ∨ t.ents.size = names.length + 1)
    (hall : ∀ s ∈ names, ∃ k, lookup t s = some k) (hnd : names.Nodup) :
    (indexReset t names).2 = 0 ∧ WF (indexReset t names).1 ∧
    ∀ (j : Nat) s, names[j]? = some s → getindex (indexReset t names).1 s = (0, (j : Int)) := by
  have hcond : (t.ents.size != names.length && t.ents.size != names.length + 1) = false := by
    rcases hsz with h | h <;> simp [h]
  have heq : indexReset t names = indexReset.go t 0 names := by
    unfold indexReset
    simp only [hcond, Bool.false_eq_true, if_false]
  rw [heq]
  obtain ⟨h1, h2, h3, h4, h5, _⟩ := indexReset_go names t 0 hw hall hnd
  refine ⟨h1, h2, ?_⟩
  intro j s hj
  obtain ⟨k, hk⟩ := hall s (List.mem_of_getElem? hj)
  unfold getindex
  rw [h3]
  simp only [Bool.not_true, Bool.false_eq_true, if_false]
  rw [h4 s, hk]
  simp only
  have := h5 j s hj k hk
  unfold indexAt at this
  rw [this]; simp

end Qsx.Symtab
