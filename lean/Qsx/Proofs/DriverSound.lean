import Qsx.Model.Driver
import Qsx.Proofs.FarkasSound

namespace Qsx
open Qsx.Gen

/-- an outcome is *certified* if a successful OPTIMAL carries inputs that passed `optimalTest`
together with exactly the vectors written to the out-parameters, and a successful INFEASIBLE
carries a vector that passed `infeasibleTest` and was written to `y`. -/
def Outcome.Certified (P : ILP) (pinf ninf : Rat) (o : Outcome) : Prop :=
  o.rval = 0 →
    (o.status = lpOptimal →
      ∃ cs rs ps ds c, o.cert = .optimal cs rs ps ds ∧ optimalTest P cs rs ps ds = some c ∧
        o.xOut = some (optPsolAfter P cs rs ps) ∧ o.yOut = some ds) ∧
    (o.status = lpInfeasible →
      ∃ ds, o.cert = .infeasible ds ∧ infeasibleTest P pinf ninf ds = true ∧ o.yOut = some ds)

theorem status_codes_distinct :
    lpOptimal ≠ lpInfeasible ∧ lpOptimal ≠ lpUnsolved ∧ lpInfeasible ≠ lpUnsolved ∧
    lpOptimal ≠ lpObjLimit ∧ lpInfeasible ≠ lpObjLimit := by decide

theorem certified_of_stagesUsed {P : ILP} {pinf ninf : Rat} {o : Outcome} (k : Nat)
    (h : o.Certified P pinf ninf) : ({ o with stagesUsed := k } : Outcome).Certified P pinf ninf := h

theorem errOut_certified (P : ILP) (pinf ninf : Rat) (c : Carry) :
    (errOut c).Certified P pinf ninf := by
  intro h; simp [errOut] at h

theorem handleStatus_done {P : ILP} {pinf ninf : Rat} {isDbl : Bool} {st : Stage} {c : Carry}
    {o : Outcome} (h : handleStatus P pinf ninf isDbl st c = .done o) : o.Certified P pinf ninf := by
  obtain ⟨d1, d2, d3, d4, d5⟩ := status_codes_distinct
  unfold handleStatus at h
  simp only at h
  split at h
  · -- OPTIMAL
    split at h
    · rename_i cc hc
      cases h
      intro _
      refine ⟨fun _ => ⟨_, _, _, _, cc, rfl, hc, rfl, rfl⟩, fun hs => absurd hs d1⟩
    · split at h
      · cases h; exact errOut_certified _ _ _ _
      · split at h
        · split at h
          · cases h; exact errOut_certified _ _ _ _
          · split at h
            · rename_i cc hc
              cases h
              intro _
              refine ⟨fun _ => ⟨_, _, _, _, cc, rfl, hc, rfl, rfl⟩, fun hs => absurd hs d1⟩
            · cases h
        · cases h
  · split at h
    · -- INFEASIBLE
      split at h
      · split at h
        · cases h
        · cases h
      · split at h
        · rename_i hc
          cases h
          intro _
          refine ⟨fun hs => absurd hs.symm d1, fun _ => ⟨_, rfl, hc, rfl⟩⟩
        · split at h
          · cases h; exact errOut_certified _ _ _ _
          · split at h
            · split at h
              · cases h; exact errOut_certified _ _ _ _
              · split at h
                · rename_i hc
                  cases h
                  intro _
                  refine ⟨fun hs => absurd hs.symm d1, fun _ => ⟨_, rfl, hc, rfl⟩⟩
                · cases h
            · cases h
    · split at h
      · cases h; exact errOut_certified _ _ _ _
      · cases h

theorem runRungs_certified (P : ILP) (pinf ninf : Rat) (rungs : List Stage) (c : Carry) (k : Nat) :
    (runRungs P pinf ninf rungs c k).Certified P pinf ninf := by
  obtain ⟨d1, d2, d3, d4, d5⟩ := status_codes_distinct
  induction rungs generalizing c k with
  | nil =>
    unfold runRungs
    intro _
    constructor
    · intro hs
      simp only at hs
      split at hs
      · exact absurd hs.symm d2
      · rename_i hn; exact absurd (Or.inl hs) hn
    · intro hs
      simp only at hs
      split at hs
      · exact absurd hs.symm d3
      · rename_i hn; exact absurd (Or.inr hs) hn
  | cons st rest ih =>
    unfold runRungs
    simp only
    split
    · exact ih _ _
    · split
      · rename_i o ho
        exact certified_of_stagesUsed _ (handleStatus_done ho)
      · exact ih _ _

/-- **C01/C02, driver level.**  For every LP and every behaviour of the floating-point engines
and of the rational basis evaluation, `QSexact_solver` leaves with `rval = 0` and status OPTIMAL
(resp. INFEASIBLE) only if the vectors it has written to the caller's `x`/`y` passed the exact
optimality (resp. Farkas) test. -/
theorem solve_certified (P : ILP) (pinf ninf : Rat) (dbl : Stage) (rungs : List Stage) :
    (solve P pinf ninf dbl rungs).Certified P pinf ninf := by
  unfold solve
  simp only
  split
  · exact runRungs_certified _ _ _ _ _ _
  · split
    · rename_i o ho
      exact certified_of_stagesUsed _ (handleStatus_done ho)
    · exact runRungs_certified _ _ _ _ _ _

theorem runRungs_stages (P : ILP) (pinf ninf : Rat) (rungs : List Stage) (c : Carry) (k : Nat) :
    (runRungs P pinf ninf rungs c k).stagesUsed ≤ k + rungs.length := by
  induction rungs generalizing c k with
  | nil => simp [runRungs]
  | cons st rest ih =>
    unfold runRungs
    simp only
    split
    · have := ih (rungHead c) (k+1); simp only [List.length_cons]; omega
    · split
      · simp
      · rename_i c' _; have := ih c' (k+1); simp only [List.length_cons]; omega

/-- **C03, ladder shape.**  At most `1 + QS_EXACT_MAX_ITER` floating-point stages are ever run. -/
theorem solve_stage_bound (P : ILP) (pinf ninf : Rat) (dbl : Stage) (rungs : List Stage) :
    (solve P pinf ninf dbl rungs).stagesUsed ≤ 1 + exactMaxIter := by
  unfold solve
  simp only
  have hl : (rungs.take exactMaxIter).length ≤ exactMaxIter := List.length_take_le _ _
  split
  · have := runRungs_stages P pinf ninf (rungs.take exactMaxIter) {} 1; omega
  · split
    · simp
    · rename_i c _; have := runRungs_stages P pinf ninf (rungs.take exactMaxIter) c 1; omega

end Qsx
