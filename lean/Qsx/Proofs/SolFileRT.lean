import Qsx.Model.SolFile

namespace Qsx.SolFile
open Qsx

theorem lookup_filter_notin (n : String) (ns : List String) (vs : List Rat) (h : n ∉ ns) :
    lookup n (encodeSec ns vs) = none := by
  induction ns generalizing vs with
  | nil => simp [encodeSec, lookup]
  | cons m ms ih =>
    cases vs with
    | nil => simp [encodeSec, lookup]
    | cons v vs =>
      have hm : m ≠ n := fun e => h (by simp [e])
      have hn : n ∉ ms := fun e => h (by simp [e])
      unfold encodeSec
      simp only [List.zip_cons_cons, List.filter_cons]
      split
      · simp only [lookup, hm, ↓reduceIte]; exact ih vs hn
      · exact ih vs hn

theorem decode_congr (ns : List String) (E E' : List (String × Rat)) (h : ∀ n ∈ ns, lookup n E = lookup n E') :
    decodeSec ns E = decodeSec ns E' := by
  unfold decodeSec
  apply List.map_congr_left
  intro n hn; rw [h n hn]

/-- **The solution file determines the full vectors.**  With distinct names, reading the entries of
the non-zero components back by name — absent names as 0 — returns exactly the vector that was written. -/
theorem decode_encode (names : List String) (vals : List Rat) (hd : names.Nodup) (hl : names.length = vals.length) :
    decodeSec names (encodeSec names vals) = vals := by
  induction names generalizing vals with
  | nil => cases vals <;> simp_all [decodeSec]
  | cons n ns ih =>
    cases vals with
    | nil => simp at hl
    | cons v vs =>
      have hn : n ∉ ns := (List.nodup_cons.mp hd).1
      have hd' : ns.Nodup := (List.nodup_cons.mp hd).2
      have hl' : ns.length = vs.length := by simpa using hl
      have htail : decodeSec ns (encodeSec (n :: ns) (v :: vs)) = vs := by
        refine Eq.trans ?_ (ih vs hd' hl')
        apply decode_congr
        intro m hm
        have hmn : n ≠ m := fun e => hn (e ▸ hm)
        unfold encodeSec
        simp only [List.zip_cons_cons, List.filter_cons]
        split
        · simp only [lookup, hmn, ↓reduceIte]
        · rfl
      have hhead : (lookup n (encodeSec (n :: ns) (v :: vs))).getD 0 = v := by
        unfold encodeSec
        simp only [List.zip_cons_cons, List.filter_cons]
        by_cases hv : v = 0
        · subst hv
          simp only [bne_self_eq_false, Bool.false_eq_true, ↓reduceIte]
          have := lookup_filter_notin n ns vs hn
          unfold encodeSec at this
          rw [this]; rfl
        · have : (v != 0) = true := by simpa using hv
          simp only [this, ↓reduceIte, lookup, Option.getD_some]
      show (decodeSec (n :: ns) (encodeSec (n :: ns) (v :: vs))) = v :: vs
      unfold decodeSec at htail ⊢
      simp only [List.map_cons]
      rw [hhead, htail]

/-- every listed entry is a non-zero component, listed under its own name -/
theorem encode_mem (names : List String) (vals : List Rat) (e : String × Rat) (h : e ∈ encodeSec names vals) :
    e.2 ≠ 0 ∧ e ∈ names.zip vals := by
  unfold encodeSec at h
  have := List.mem_filter.mp h
  exact ⟨by simpa using this.2, this.1⟩

/-- and every non-zero component is listed -/
theorem mem_encode (names : List String) (vals : List Rat) (e : String × Rat) (h : e ∈ names.zip vals) (hz : e.2 ≠ 0) :
    e ∈ encodeSec names vals := by
  unfold encodeSec
  exact List.mem_filter.mpr ⟨h, by simpa using hz⟩

end Qsx.SolFile
