import Qsx.Model.Verdict
import Qsx.Proofs.ApiCert

namespace Qsx.Verdict
open Qsx ILP

theorem csOK_of_status {isMin : Bool} {c : Col} {st : Nat} {v d : Rat}
    (h1 : colOK c st v d = true) (h2 : dualOK isMin c st d = true) : csOK isMin c v d = true := by
  unfold colOK at h1
  unfold dualOK at h2
  unfold csOK
  by_cases hb : isBasic st = true
  · simp only [hb, ↓reduceIte, beq_iff_eq] at h1
    subst h1
    simp [posDir, negDir]
  · simp only [hb, Bool.false_eq_true, ↓reduceIte] at h1 h2
    by_cases hl : isLower st = true
    · simp only [hl, ↓reduceIte, beq_iff_eq, Bool.or_eq_true, Bool.not_eq_true'] at h1 h2
      subst h1
      rcases h2 with h2 | h2
      · simp [h2]
      · simp [h2]
    · simp only [hl, Bool.false_eq_true, ↓reduceIte] at h1 h2
      by_cases hu : isUpper st = true
      · simp only [hu, ↓reduceIte, beq_iff_eq, Bool.or_eq_true, Bool.not_eq_true'] at h1 h2
        subst h1
        rcases h2 with h2 | h2
        · simp [h2]
        · simp [h2]
      · simp only [hu, Bool.false_eq_true, ↓reduceIte, beq_iff_eq] at h1 h2
        subst h2
        simp [posDir, negDir]

/-- **C12, soundness of the verdict.**  If `(z, y)` is the basic solution of the basis (checked by
multiplication) and the verdict is "optimal", then `z` is feasible and no point inside the bounds is
better: the verdict 'optimal' is only given to bases whose exact basic solution is optimal. -/
theorem verdict_sound {P : ILP} {cs rs : Array Nat} {b : BSol} (hw : P.WF)
    (hb : isBasicSol P cs rs b = true) (hv : optimalVerdict P cs rs b = true) :
    P.BoxFeasible (rget b.x) (rget b.s) ∧
    ∀ x' s', P.BoxFeasible x' s' → P.better (P.objv (rget b.x) (rget b.s)) (P.objv x' s') := by
  unfold isBasicSol at hb
  unfold optimalVerdict primalFeasible dualFeasible at hv
  simp only [Bool.and_eq_true, allTo_iff, decide_eq_true_eq] at hb hv
  obtain ⟨⟨hrows, hcS⟩, hcL⟩ := hb
  obtain ⟨⟨hpS, hpL⟩, ⟨hdS, hdL⟩⟩ := hv
  have hbox : P.BoxFeasible (rget b.x) (rget b.s) :=
    ⟨hrows, fun j hj => (hpS j hj).1, fun j hj => (hpS j hj).2, fun i hi => (hpL i hi).1, fun i hi => (hpL i hi).2⟩
  refine ⟨hbox, fun x' s' hf => ?_⟩
  exact dominates_of_cs hw (rget b.x) (rget b.s) (rget b.y) x' s' hrows hf.rows
    (fun j hj => csOK_of_status (hcS j hj) (hdS j hj))
    (fun i hi => csOK_of_status (hcL i hi) (hdL i hi))
    (fun j hj _ => hf.xlo j hj) (fun j hj _ => hf.xup j hj)
    (fun i hi _ => hf.slo i hi) (fun i hi _ => hf.sup i hi)

/-- **C12, the dual bound.**  For the basic solution of a basis the reported dual bound
`y·b + Σ_{non-basic} dz_j·bound_j` equals the objective value of that basic solution. -/
theorem dualBound_eq_objv {P : ILP} {cs rs : Array Nat} {b : BSol} (hw : P.WF)
    (hb : isBasicSol P cs rs b = true) :
    dualBound P cs rs b = P.objv (rget b.x) (rget b.s) := by
  unfold isBasicSol at hb
  simp only [Bool.and_eq_true, allTo_iff, decide_eq_true_eq] at hb
  obtain ⟨⟨hrows, hcS⟩, hcL⟩ := hb
  rw [objv_split P hw (rget b.x) (rget b.s) (rget b.y) hrows]
  unfold dualBound
  have e1 : sumTo P.ns (fun j => if isBasic (nget cs j) then 0 else dzOf (P.scol j) (rget b.y) * rget b.x j)
      = sumTo P.ns (fun j => dzOf (P.scol j) (rget b.y) * rget b.x j) := by
    apply sumTo_congr
    intro j hj
    have := hcS j hj
    unfold colOK at this
    by_cases h : isBasic (nget cs j) = true
    · simp only [h, ↓reduceIte, beq_iff_eq] at this ⊢
      rw [this]; ring
    · simp [h]
  have e2 : sumTo P.nrows (fun i => if isBasic (nget rs i) then 0 else dzOf (P.lcol i) (rget b.y) * rget b.s i)
      = sumTo P.nrows (fun i => dzOf (P.lcol i) (rget b.y) * rget b.s i) := by
    apply sumTo_congr
    intro i hi
    have := hcL i hi
    unfold colOK at this
    by_cases h : isBasic (nget rs i) = true
    · simp only [h, ↓reduceIte, beq_iff_eq] at this ⊢
      rw [this]; ring
    · simp [h]
  rw [e1, e2]; ring

/-- consequently a dual feasible basis gives a valid bound on every feasible point -/
theorem dualBound_valid {P : ILP} {cs rs : Array Nat} {b : BSol} (hw : P.WF)
    (hb : isBasicSol P cs rs b = true) (hd : dualFeasible P cs rs b = true)
    (x' s' : Nat → Rat) (hf : P.BoxFeasible x' s') :
    P.better (dualBound P cs rs b) (P.objv x' s') := by
  rw [dualBound_eq_objv hw hb]
  unfold isBasicSol at hb
  unfold dualFeasible at hd
  simp only [Bool.and_eq_true, allTo_iff, decide_eq_true_eq] at hb hd
  obtain ⟨⟨hrows, hcS⟩, hcL⟩ := hb
  exact dominates_of_cs hw (rget b.x) (rget b.s) (rget b.y) x' s' hrows hf.rows
    (fun j hj => csOK_of_status (hcS j hj) (hd.1 j hj))
    (fun i hi => csOK_of_status (hcL i hi) (hd.2 i hi))
    (fun j hj _ => hf.xlo j hj) (fun j hj _ => hf.xup j hj)
    (fun i hi _ => hf.slo i hi) (fun i hi _ => hf.sup i hi)

end Qsx.Verdict
