import Qsx.Model.Multi
import Qsx.Model.Round
import Mathlib.Tactic.Ring
import Mathlib.Tactic.Linarith
import Mathlib.Algebra.Order.Field.Power
import Mathlib.Algebra.Order.AbsoluteValue.Basic

namespace Qsx.Multi
open Qsx

theorem step_other (s : Store) (c : Cmd) (k : Nat) (h : k ≠ c.target) : step s c k = s k := by
  cases c with
  | op j o =>
    simp only [Cmd.target] at h
    simp only [step]
    cases hs : s j with
    | none => rfl
    | some p => simp [set, h]
  | copy a b =>
    simp only [Cmd.target] at h
    simp only [step]
    cases hs : s a with
    | none => rfl
    | some p => simp [set, h]
  | free j =>
    simp only [Cmd.target] at h
    simp [step, set, h]

/-- **Faithful.**  Right after the copy the new slot shows the original. -/
theorem copy_faithful (s : Store) (a b : Nat) (p : Spec.Prob) (h : s a = some p) :
    step s (.copy a b) b = some p := by
  simp [step, h, set]

/-- the original is unchanged by being copied (when the copy goes to another slot) -/
theorem copy_keeps_original (s : Store) (a b : Nat) (hab : a ≠ b) : step s (.copy a b) a = s a :=
  step_other s (.copy a b) a hab

theorem run_other (s : Store) (cs : List Cmd) (k : Nat) (h : ∀ c ∈ cs, k ≠ c.target) : run s cs k = s k := by
  induction cs generalizing s with
  | nil => rfl
  | cons c cs ih =>
    unfold run at ih ⊢
    simp only [List.foldl_cons]
    rw [ih (step s c) (fun c' hc' => h c' (List.mem_cons_of_mem _ hc'))]
    exact step_other s c k (h c (List.mem_cons_self ..))

/-- **Independent.**  Whatever is done afterwards to other objects — edits of the original, freeing
it, further copies elsewhere — the copy keeps showing what the original showed when it was copied;
and symmetrically the original is not affected by anything done to the copy. -/
theorem copy_independent (s : Store) (a b : Nat) (p : Spec.Prob) (h : s a = some p) (cs : List Cmd)
    (hcs : ∀ c ∈ cs, b ≠ c.target) : run (step s (.copy a b)) cs b = some p := by
  rw [run_other _ cs b hcs]; exact copy_faithful s a b p h

theorem original_independent (s : Store) (a b : Nat) (hab : a ≠ b) (cs : List Cmd)
    (hcs : ∀ c ∈ cs, a ≠ c.target) : run (step s (.copy a b)) cs a = s a := by
  rw [run_other _ cs a hcs]; exact copy_keeps_original s a b hab

end Qsx.Multi

namespace Qsx.Round
open Qsx

theorem pow2_eq (e : Int) : pow2 e = (2 : Rat) ^ e := by
  unfold pow2
  by_cases h : 0 ≤ e
  · rw [if_pos h]
    obtain ⟨n, rfl⟩ := Int.eq_ofNat_of_zero_le h
    simp
  · rw [if_neg h]
    have hn : e < 0 := not_le.mp h
    obtain ⟨n, hn'⟩ := Int.exists_eq_neg_ofNat (le_of_lt hn)
    subst hn'
    simp

theorem rabs_eq (q : Rat) : rabs q = |q| := by
  unfold rabs
  by_cases h : q < 0
  · rw [if_pos h, abs_of_neg h]
  · rw [if_neg h, abs_of_nonneg (not_lt.mp h)]

/-- **Within one ulp ⇒ relative error at most `2^(1−p)`.** -/
theorem ulpOK_rel {q d : Rat} {e : Int} {p : Nat} (h : ulpOK q d e p = true) (hd : d ≠ 0) :
    |q - d| ≤ (2 : Rat) ^ (1 - (p : Int)) * |d| := by
  unfold ulpOK at h
  have hd' : (d == 0) = false := by simpa using hd
  rw [hd'] at h
  simp only [Bool.false_eq_true, ↓reduceIte, Bool.and_eq_true, decide_eq_true_eq, bracket] at h
  obtain ⟨⟨h1, _⟩, h3⟩ := h
  rw [rabs_eq, pow2_eq] at h1 h3
  have e1 : (2 : Rat) ^ (e + 1 - (p : Int)) = (2 : Rat) ^ (1 - (p : Int)) * (2 : Rat) ^ e := by
    rw [← zpow_add₀ (by norm_num : (2 : Rat) ≠ 0)]; congr 1; ring
  rw [e1] at h3
  have hpos : (0 : Rat) ≤ (2 : Rat) ^ (1 - (p : Int)) := by positivity
  calc |q - d| ≤ (2 : Rat) ^ (1 - (p : Int)) * (2 : Rat) ^ e := h3
    _ ≤ (2 : Rat) ^ (1 - (p : Int)) * |d| := mul_le_mul_of_nonneg_left h1 hpos

/-- zeros go to zeros -/
theorem ulpOK_zero {q : Rat} {e : Int} {p : Nat} (h : ulpOK q 0 e p = true) : q = 0 := by
  unfold ulpOK at h
  simpa using h

end Qsx.Round
