import Qsx.Model.LP
import Qsx.Proofs.FarkasSound

namespace Qsx
open ILP

/-! ### basis-free check on the internal LP -/

theorem dominates_of_cs {P : ILP} (hw : P.WF) (x s y x' s' : Nat → Rat)
    (hr : P.RowsHold x s) (hr' : P.RowsHold x' s')
    (csS : ∀ j, j < P.ns → csOK P.isMin (P.scol j) (x j) (dzOf (P.scol j) y) = true)
    (csL : ∀ i, i < P.nrows → csOK P.isMin (P.lcol i) (s i) (dzOf (P.lcol i) y) = true)
    (hxl : ∀ j, j < P.ns → posDir P.isMin (dzOf (P.scol j) y) = true → (P.scol j).lo ≤ x' j)
    (hxu : ∀ j, j < P.ns → negDir P.isMin (dzOf (P.scol j) y) = true → x' j ≤ (P.scol j).up)
    (hsl : ∀ i, i < P.nrows → posDir P.isMin (dzOf (P.lcol i) y) = true → (P.lcol i).lo ≤ s' i)
    (hsu : ∀ i, i < P.nrows → negDir P.isMin (dzOf (P.lcol i) y) = true → s' i ≤ (P.lcol i).up) :
    P.better (P.objv x s) (P.objv x' s') := by
  have e1 := objv_split P hw x s y hr
  have e2 := objv_split P hw x' s' y hr'
  have hdiff : P.objv x' s' - P.objv x s
      = sumTo P.ns (fun j => dzOf (P.scol j) y * (x' j - x j))
        + sumTo P.nrows (fun i => dzOf (P.lcol i) y * (s' i - s i)) := by
    rw [e1, e2]
    have : ∀ (n : Nat) (d a b : Nat → Rat), sumTo n (fun k => d k * (a k - b k))
        = sumTo n (fun k => d k * a k) - sumTo n (fun k => d k * b k) := by
      intro n d a b; rw [← sumTo_sub]; apply sumTo_congr; intro k _; ring
    rw [this, this]; ring
  have termS : ∀ j, j < P.ns →
      if P.isMin then 0 ≤ dzOf (P.scol j) y * (x' j - x j)
      else dzOf (P.scol j) y * (x' j - x j) ≤ 0 :=
    fun j hj => cs_term (csS j hj) (hxl j hj) (hxu j hj)
  have termL : ∀ i, i < P.nrows →
      if P.isMin then 0 ≤ dzOf (P.lcol i) y * (s' i - s i)
      else dzOf (P.lcol i) y * (s' i - s i) ≤ 0 :=
    fun i hi => cs_term (csL i hi) (hsl i hi) (hsu i hi)
  unfold better
  cases hm : P.isMin
  · simp only [Bool.false_eq_true, ↓reduceIte]
    simp only [hm, Bool.false_eq_true, ↓reduceIte] at termS termL
    have t1 : sumTo P.ns (fun j => dzOf (P.scol j) y * (x' j - x j)) ≤ 0 := by
      have := sumTo_le (n := P.ns) (g := fun _ => 0) termS
      rwa [sumTo_zero (fun _ _ => rfl)] at this
    have t2 : sumTo P.nrows (fun i => dzOf (P.lcol i) y * (s' i - s i)) ≤ 0 := by
      have := sumTo_le (n := P.nrows) (g := fun _ => 0) termL
      rwa [sumTo_zero (fun _ _ => rfl)] at this
    linarith
  · simp only [↓reduceIte]
    simp only [hm, ↓reduceIte] at termS termL
    have t1 := sumTo_nonneg termS
    have t2 := sumTo_nonneg termL
    linarith

theorem certCheck_sound {P : ILP} {pinf ninf : Rat} {x s y : Nat → Rat} (hw : P.WF)
    (h : certCheck P pinf ninf x s y = true) :
    P.BoxFeasible x s ∧ ∀ x' s', P.Feasible pinf ninf x' s' → P.better (P.objv x s) (P.objv x' s') := by
  unfold certCheck at h
  simp only [Bool.and_eq_true, allTo_iff, decide_eq_true_eq, Bool.or_eq_true, Bool.not_eq_true',
    bne_iff_ne, ne_eq] at h
  obtain ⟨⟨⟨⟨⟨⟨hrow, hxb⟩, hsb⟩, csS⟩, csL⟩, hnS⟩, hnL⟩ := h
  have hbox : P.BoxFeasible x s :=
    ⟨hrow, fun j hj => (hxb j hj).1, fun j hj => (hxb j hj).2,
     fun i hi => (hsb i hi).1, fun i hi => (hsb i hi).2⟩
  refine ⟨hbox, fun x' s' hf => dominates_of_cs hw x s y x' s' hrow hf.rows csS csL ?_ ?_ ?_ ?_⟩
  · intro j hj hp
    rcases (hnS j hj).1 with h | h
    · rw [hp] at h; cases h
    · exact hf.xlo j hj h
  · intro j hj hp
    rcases (hnS j hj).2 with h | h
    · rw [hp] at h; cases h
    · exact hf.xup j hj h
  · intro i hi hp
    rcases (hnL i hi).1 with h | h
    · rw [hp] at h; cases h
    · exact hf.slo i hi h
  · intro i hi hp
    rcases (hnL i hi).2 with h | h
    · rw [hp] at h; cases h
    · exact hf.sup i hi h

end Qsx
