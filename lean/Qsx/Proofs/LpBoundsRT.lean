import Qsx.Model.LpBounds
import Mathlib.Tactic.Linarith
import Mathlib.Tactic.NormNum

namespace Qsx.LpBounds
open Qsx

/-- **The Bounds section round-trips.**  For every pair of bounds with `lo ≤ up` (infinite ones as the
encodings `ninf < 0 < 1 < pinf`), integer column or not, reading back what the writer prints (or
does not print) for the column gives the same bounds. -/
theorem read_write (lo up pinf ninf : Rat) (isInt : Bool) (hle : lo ≤ up) (hn : ninf < 0) (hp : 1 < pinf) :
    readCol pinf ninf isInt (writeCol lo up pinf ninf isInt) = (lo, up) := by
  unfold writeCol
  by_cases h1 : lo = up
  · subst h1; simp [readCol]
  · have h1' : (lo == up) = false := by simpa using h1
    rw [h1']
    simp only [Bool.false_eq_true, ↓reduceIte]
    by_cases h2 : lo = ninf ∧ up = pinf
    · obtain ⟨a, b⟩ := h2
      subst a; subst b
      simp [readCol]
    · have h2' : (lo == ninf && up == pinf) = false := by
        cases ha : (lo == ninf) <;> cases hb : (up == pinf) <;> simp_all
      rw [h2']
      simp only [Bool.false_eq_true, ↓reduceIte]
      -- the remaining cases by the two default tests
      unfold defaultLower defaultUpper
      by_cases hl0 : lo = 0
      · subst hl0
        have hup : ¬ up < 0 := not_lt.mpr hle
        have hn0 : ¬ (0 : Rat) = ninf := fun e => by rw [← e] at hn; exact lt_irrefl _ hn
        cases isInt
        · -- continuous, lower 0
          by_cases hu : up = pinf
          · subst hu; simp [hup, hn0, readCol]
          · simp [hup, hn0, hu, readCol]
        · by_cases hu : up = 1
          · subst hu; norm_num [hn0, readCol]
          · simp [hup, hn0, hu, readCol]
      · by_cases hln : lo = ninf
        · subst hln
          have hupinf : ¬ up = pinf := fun e => h2 ⟨rfl, e⟩
          have hi : (isInt && (lo == 0)) = false := by simp [hl0]
          by_cases hneg : up < 0
          · simp [hl0, hneg, hupinf, readCol]
          · simp [hl0, hneg, hupinf, readCol]
        · by_cases hu : up = pinf
          · subst hu; simp [hl0, hln, readCol]
          · simp [hl0, hln, hu, readCol]

end Qsx.LpBounds

namespace Qsx.MpsBounds
open Qsx Qsx.LpBounds

/-- **The BOUNDS section of the MPS format round-trips**, same statement as for the LP format. -/
theorem read_write (lo up pinf ninf : Rat) (isInt : Bool) (hle : lo ≤ up) (hn : ninf < 0) (hp : 1 < pinf) :
    readCol pinf ninf isInt (writeCol lo up pinf ninf isInt) = (lo, up) := by
  unfold writeCol
  by_cases h1 : lo = up
  · subst h1; simp [readCol, apply, fillIn]
  · have h1' : (lo == up) = false := by simpa using h1
    rw [h1']
    simp only [Bool.false_eq_true, ↓reduceIte]
    by_cases h2 : lo = ninf ∧ up = pinf
    · obtain ⟨a, b⟩ := h2
      subst a; subst b
      simp [readCol, apply, fillIn]
    · have h2' : (lo == ninf && up == pinf) = false := by
        cases ha : (lo == ninf) <;> cases hb : (up == pinf) <;> simp_all
      rw [h2']
      simp only [Bool.false_eq_true, ↓reduceIte]
      unfold defaultLower defaultUpper
      have hpn : ¬ pinf < 0 := by linarith
      by_cases hl0 : lo = 0
      · subst hl0
        have hup : ¬ up < 0 := not_lt.mpr hle
        have hn0 : ¬ (0 : Rat) = ninf := fun e => by rw [← e] at hn; exact lt_irrefl _ hn
        cases isInt
        · by_cases hu : up = pinf
          · subst hu; simp [hup, hn0, readCol, fillIn]
          · simp [hup, hn0, hu, readCol, apply, setUpper, fillIn]
        · by_cases hu : up = 1
          · subst hu; norm_num [hn0, readCol, fillIn]
          · by_cases hu2 : up = pinf
            · subst hu2; simp [hup, hn0, hu, readCol, apply, setUpper, fillIn, hpn]
            · simp [hup, hn0, hu, hu2, readCol, apply, setUpper, fillIn]
      · by_cases hln : lo = ninf
        · subst hln
          have hupinf : ¬ up = pinf := fun e => h2 ⟨rfl, e⟩
          by_cases hneg : up < 0
          · simp [hl0, hneg, hupinf, readCol, apply, setUpper, fillIn]
          · simp [hl0, hneg, hupinf, readCol, apply, setUpper, setLower, fillIn]
        · by_cases hu : up = pinf
          · subst hu; simp [hl0, hln, readCol, apply, setLower, fillIn]
          · simp [hl0, hln, hu, readCol, apply, setLower, setUpper, fillIn]

end Qsx.MpsBounds

namespace Qsx.MpsRanges
open Qsx

/-- a ranged row with a non-negative range (zero included) comes back as the same ranged row; every
other row comes back unchanged -/
theorem read_write (sense : Char) (rhs range : Rat) (hr : 0 ≤ range) (hs : sense = 'R' ∨ range = 0) :
    readRow (writeRow sense rhs range).1 (writeRow sense rhs range).2.1 (writeRow sense rhs range).2.2 = (sense, rhs, range) := by
  unfold writeRow
  by_cases h : sense = 'R'
  · subst h
    have : ¬ range < 0 := not_lt.mpr hr
    simp [readRow, this]
  · rcases hs with hs | hs
    · exact absurd hs h
    · subst hs; simp [h, readRow]

/-- the standard meaning of a RANGES record: the stored row `rhs' ≤ v ≤ rhs' + range'` is the
documented interval for each of the three senses -/
theorem read_meaning (sense : Char) (rhs r v : Rat) (hs : sense = 'G' ∨ sense = 'L' ∨ sense = 'E') :
    let row := readRow sense rhs (some r)
    row.1 = 'R' ∧
    ((row.2.1 ≤ v ∧ v ≤ row.2.1 + row.2.2) ↔
      (if sense = 'G' then rhs ≤ v ∧ v ≤ rhs + |r|
       else if sense = 'L' then rhs - |r| ≤ v ∧ v ≤ rhs
       else if 0 ≤ r then rhs ≤ v ∧ v ≤ rhs + r else rhs + r ≤ v ∧ v ≤ rhs)) := by
  rcases hs with h | h | h <;> subst h
  · by_cases hr : r < 0
    · simp [readRow, hr, abs_of_neg hr]
    · simp [readRow, hr, abs_of_nonneg (not_lt.mp hr)]
  · by_cases hr : r < 0
    · simp [readRow, hr, abs_of_neg hr]
    · simp [readRow, hr, abs_of_nonneg (not_lt.mp hr)]
  · by_cases hr : r < 0
    · have : ¬ 0 ≤ r := not_le.mpr hr
      simp [readRow, hr, this]
    · have : 0 ≤ r := not_lt.mp hr
      simp [readRow, hr, this]

end Qsx.MpsRanges
