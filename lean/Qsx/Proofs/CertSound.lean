import Qsx.Model.Sem
import Qsx.Proofs.Sums

namespace Qsx
open ILP

/-! ### the exchange identity  Σ_j (A_j·y) x_j = Σ_i y_i (A x)_i -/

theorem entDot_eq_sumTo (m : Nat) (ent : List (Nat × Rat)) (y : Nat → Rat)
    (h : ∀ e ∈ ent, e.1 < m) : entDot ent y = sumTo m (fun i => entAt ent i * y i) := by
  induction ent with
  | nil => simp [entDot, entAt, lsum, sumTo_zero]
  | cons e l ih =>
    have hl : ∀ e' ∈ l, e'.1 < m := fun e' he' => h e' (List.mem_cons_of_mem _ he')
    have he : e.1 < m := h e (List.mem_cons_self ..)
    have ih' := ih hl
    simp only [entDot, entAt, List.map_cons, lsum] at ih' ⊢
    rw [ih']
    have : sumTo m (fun i => ((if e.1 = i then e.2 else 0) + lsum (List.map (fun e => if e.1 = i then e.2 else 0) l)) * y i)
        = sumTo m (fun i => if e.1 = i then e.2 * y i else 0)
          + sumTo m (fun i => lsum (List.map (fun e => if e.1 = i then e.2 else 0) l) * y i) := by
      rw [← sumTo_add]
      apply sumTo_congr
      intro i _
      split <;> ring
    rw [this, sumTo_ite_eq m e.1 he (fun i => e.2 * y i)]

theorem exchange (P : ILP) (hw : P.WF) (x y : Nat → Rat) :
    sumTo P.ns (fun j => entDot (P.scol j).ent y * x j)
      = sumTo P.nrows (fun i => y i * structAct P x i) := by
  have h1 : sumTo P.ns (fun j => entDot (P.scol j).ent y * x j)
      = sumTo P.ns (fun j => sumTo P.nrows (fun i => entAt (P.scol j).ent i * y i * x j)) := by
    apply sumTo_congr
    intro j hj
    rw [entDot_eq_sumTo P.nrows _ y (hw.sidx j hj), ← sumTo_mul_right]
  rw [h1, sumTo_comm]
  apply sumTo_congr
  intro i _
  unfold structAct
  rw [← sumTo_mul_left]
  apply sumTo_congr
  intro j _
  ring

theorem lcol_entDot (P : ILP) (hw : P.WF) (y : Nat → Rat) (i : Nat) (hi : i < P.nrows) :
    entDot (P.lcol i).ent y = (P.lcol i).coef * y i := by
  obtain ⟨a, _, he⟩ := hw.lent i hi
  simp [entDot, Col.coef, he, lsum]

/-- For every point satisfying the rows, the objective splits into reduced-cost terms plus `y·b`. -/
theorem objv_split (P : ILP) (hw : P.WF) (x s y : Nat → Rat) (hr : P.RowsHold x s) :
    P.objv x s = sumTo P.ns (fun j => dzOf (P.scol j) y * x j)
               + sumTo P.nrows (fun i => dzOf (P.lcol i) y * s i)
               + sumTo P.nrows (fun i => P.b i * y i) := by
  have hb : sumTo P.nrows (fun i => P.b i * y i)
      = sumTo P.nrows (fun i => y i * structAct P x i)
        + sumTo P.nrows (fun i => entDot (P.lcol i).ent y * s i) := by
    rw [← sumTo_add]
    apply sumTo_congr
    intro i hi
    rw [lcol_entDot P hw y i hi, ← hr i hi]
    ring
  rw [hb, ← exchange P hw x y]
  have hs : sumTo P.ns (fun j => (P.scol j).obj * x j)
      = sumTo P.ns (fun j => dzOf (P.scol j) y * x j)
        + sumTo P.ns (fun j => entDot (P.scol j).ent y * x j) := by
    rw [← sumTo_add]; apply sumTo_congr; intro j _; unfold dzOf; ring
  have hl : sumTo P.nrows (fun i => (P.lcol i).obj * s i)
      = sumTo P.nrows (fun i => dzOf (P.lcol i) y * s i)
        + sumTo P.nrows (fun i => entDot (P.lcol i).ent y * s i) := by
    rw [← sumTo_add]; apply sumTo_congr; intro i _; unfold dzOf; ring
  unfold objv
  rw [hs, hl]
  ring

end Qsx

namespace Qsx
open ILP

/-- everything an accepting run of `optimalTest` has established -/
structure OptFacts (P : ILP) (cs rs : Array Nat) (ps ds : Array Rat) (c : Cache) : Prop where
  hx : c.x = xArr P cs ps
  hs : c.slack = sArr P cs rs ps
  hrc : c.rc = dzSArr P ds
  hpi : c.pi = tab P.nrows (rget ds)
  hval : c.val = pObj P c.x c.slack
  sbox : ∀ j, j < P.ns → (P.scol j).lo ≤ (P.scol j).up
  lbox : ∀ i, i < P.nrows → (P.lcol i).lo ≤ (P.lcol i).up
  roweq : ∀ i, i < P.nrows → rowEqOK P rs ps (rget c.x) i = true
  slo : ∀ i, i < P.nrows → (P.lcol i).lo ≤ rget c.slack i
  sup : ∀ i, i < P.nrows → rget c.slack i ≤ (P.lcol i).up
  csS : ∀ j, j < P.ns → csOK P.isMin (P.scol j) (rget c.x j) (rget (dzSArr P ds) j) = true
  csL : ∀ i, i < P.nrows → csOK P.isMin (P.lcol i) (rget c.slack i) (rget (dzLArr P ds) i) = true
  hobj : pObj P c.x c.slack = dObj P ds (dzSArr P ds) (dzLArr P ds)

theorem optimalTest_facts {P : ILP} {cs rs : Array Nat} {ps ds : Array Rat} {c : Cache}
    (h : optimalTest P cs rs ps ds = some c) : OptFacts P cs rs ps ds c := by
  unfold optimalTest at h
  by_cases hr : optReason P cs rs ps ds = .ok
  · rw [if_pos hr] at h
    simp only [Option.some.injEq] at h
    subst h
    unfold optReason at hr
    by_cases h1 : cs.size ≠ P.ns ∨ rs.size ≠ P.nrows ∨ countBasic cs rs ≠ P.nrows
    · rw [if_pos h1] at hr; cases hr
    rw [if_neg h1] at hr
    by_cases h2 : (!(allTo P.ns fun j => decide ((P.scol j).lo ≤ (P.scol j).up))) = true
    · rw [if_pos h2] at hr; cases hr
    rw [if_neg h2] at hr
    by_cases h3 : (!(allTo P.ns fun j => validCstat (nget cs j))) = true
    · rw [if_pos h3] at hr; cases hr
    rw [if_neg h3] at hr
    by_cases h4 : (!(allTo P.nrows fun i => decide ((P.lcol i).lo ≤ (P.lcol i).up))) = true
    · rw [if_pos h4] at hr; cases hr
    rw [if_neg h4] at hr
    by_cases h5 : (!(allTo P.nrows fun i => validRstat (nget rs i))) = true
    · rw [if_pos h5] at hr; cases hr
    rw [if_neg h5] at hr
    by_cases h6 : (!(allTo P.nrows fun i => rowEqOK P rs ps (rget (xArr P cs ps)) i)) = true
    · rw [if_pos h6] at hr; cases hr
    rw [if_neg h6] at hr
    by_cases h7 : (!(allTo P.nrows fun i => decide ((P.lcol i).lo ≤ rget (sArr P cs rs ps) i))) = true
    · rw [if_pos h7] at hr; cases hr
    rw [if_neg h7] at hr
    by_cases h8 : (!(allTo P.nrows fun i => decide (rget (sArr P cs rs ps) i ≤ (P.lcol i).up))) = true
    · rw [if_pos h8] at hr; cases hr
    rw [if_neg h8] at hr
    by_cases h9 : (!(allTo P.ns fun j => csOK P.isMin (P.scol j) (rget (xArr P cs ps) j) (rget (dzSArr P ds) j))) = true
    · rw [if_pos h9] at hr; cases hr
    rw [if_neg h9] at hr
    by_cases h10 : (!(allTo P.nrows fun i => csOK P.isMin (P.lcol i) (rget (sArr P cs rs ps) i) (rget (dzLArr P ds) i))) = true
    · rw [if_pos h10] at hr; cases hr
    rw [if_neg h10] at hr
    by_cases h11 : pObj P (xArr P cs ps) (sArr P cs rs ps) ≠ dObj P ds (dzSArr P ds) (dzLArr P ds)
    · rw [if_pos h11] at hr; cases hr
    simp only [Bool.not_eq_true', Bool.not_eq_false, allTo_iff, decide_eq_true_eq, ne_eq,
      Decidable.not_not] at h2 h4 h6 h7 h8 h9 h10 h11
    exact ⟨rfl, rfl, rfl, rfl, rfl, h2, h4, h6, h7, h8, h9, h10, h11⟩
  · rw [if_neg hr] at h; cases h

end Qsx
