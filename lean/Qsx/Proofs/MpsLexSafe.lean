/-
Safety of the MPS lexer model (C11): from every state whose cursor points into a terminated string,
no lexer function dereferences a null cursor or reads behind the terminator, and the cursor stays
inside the string; `next_line` delivers such a state whenever it reports a line.
-/
import Qsx.Model.MpsLex
import Qsx.Proofs.LpLexSafe

namespace Qsx.MpsLex
open Qsx.LpLex (NUL rd isBlank isSpace scanWhile sscanfS prefixCI cstr Bnd rd_some rd_ne_nul scanWhile_safe isBlank_nul sscanfS_len prefixCI_len)

def Safe {α : Type} (x : Option (St × α)) : Prop := ∃ s r, x = some (s, r) ∧ Inv s

theorem Safe.pure {α : Type} {s : St} {r : α} (h : Inv s) : Safe (some (s, r)) := ⟨s, r, rfl, h⟩

theorem rdp_some {s : St} (h : Inv s) (k : Nat) (hk : s.p + k ≤ s.line.length) : ∃ c, rdp s k = some c ∧ rd s.line (s.p + k) = some c := by
  obtain ⟨h1, h2, _⟩ := h
  obtain ⟨c, hc⟩ := rd_some hk
  exact ⟨c, by simp [rdp, h1, h2, hc], hc⟩

theorem rest_some {s : St} (h : Inv s) : rest s = some (s.line.drop s.p) := by
  obtain ⟨h1, h2, h3⟩ := h
  simp [rest, h1, h2, h3]

theorem skipComment_safe (s : St) (h : Inv s) : Safe (skipComment s) := by
  rcases s with ⟨line, p0, pnull, unterm, ln, fn, key, field, nt, file⟩
  obtain ⟨h1, h2, h3⟩ := h
  simp only at h1 h2 h3
  subst h1 h2
  unfold skipComment
  obtain ⟨p, hp, _, hp2⟩ := scanWhile_safe (fun c _ => isBlank c) (fun _ => isBlank_nul) line p0 0 h3
  have hi : Inv { line := line, p := p, pnull := false, unterm := false, lineNum := ln, fieldNum := fn, key := key, field := field, noType := nt, file := file } := ⟨rfl, rfl, hp2⟩
  obtain ⟨c, hc, _⟩ := rdp_some hi 0 (by simpa using hp2)
  simp only [hp, hc, Option.bind_eq_bind, Option.bind_some, Option.pure_def, Bool.false_eq_true, if_false]
  exact Safe.pure hi

theorem nextField_safe (s : St) (h : Inv s) : Safe (nextField s) := by
  unfold nextField
  obtain ⟨s1, r1, e1, i1⟩ := skipComment_safe { s with field := [] } h
  simp only [e1, Option.bind_eq_bind, Option.bind_some, Option.pure_def]
  split
  · exact Safe.pure i1
  · simp only [rest_some i1, Option.bind_some]
    split
    · rename_i f hf
      have hl := sscanfS_len hf
      simp at hl
      have hb : s1.p + f.length ≤ s1.line.length := by have := i1.2.2; omega
      have i2 : Inv { s1 with field := f, p := s1.p + f.length } := ⟨i1.1, i1.2.1, hb⟩
      obtain ⟨c, hc, hc'⟩ := rdp_some i2 0 (by simpa using hb)
      simp only [hc, Option.bind_some]
      refine Safe.pure ?_
      split
      · rename_i hne
        have : c ≠ NUL := by simpa using hne
        have := rd_ne_nul hc' this
        exact ⟨i1.1, i1.2.1, by simp at this ⊢; omega⟩
      · exact i2
    · exact Safe.pure i1

theorem getDouble_safe (s : St) (peek : Bool) (h : Inv s) : Safe (getDouble s peek) := by
  unfold getDouble
  obtain ⟨s1, r1, e1, i1⟩ := skipComment_safe s h
  simp only [e1, Option.bind_eq_bind, Option.bind_some, Option.pure_def]
  split
  · exact Safe.pure i1
  · simp only [rest_some i1, Option.bind_some]
    have hle := Num.scan_consumes_le (List.drop s1.p s1.line)
    split
    · rename_i n q hs
      split
      · refine Safe.pure ?_
        split
        · exact i1
        · simp [hs] at hle
          exact ⟨i1.1, i1.2.1, by have := i1.2.2; show s1.p + n ≤ s1.line.length; omega⟩
      · exact Safe.pure i1
    · exact Safe.pure i1

theorem nextCoef_safe (s : St) (h : Inv s) : Safe (nextCoef s) := by
  unfold nextCoef
  obtain ⟨s1, r1, e1, i1⟩ := skipComment_safe s h
  simp only [e1, Option.bind_eq_bind, Option.bind_some, Option.pure_def]
  split
  · exact Safe.pure i1
  · obtain ⟨s2, ⟨ok, v⟩, e2, i2⟩ := getDouble_safe s1 false i1
    simp only [e2, Option.bind_some]; exact Safe.pure i2

theorem nextFieldIsNumber_safe (s : St) (h : Inv s) : Safe (nextFieldIsNumber s) := by
  unfold nextFieldIsNumber
  obtain ⟨s1, r1, e1, i1⟩ := skipComment_safe s h
  simp only [e1, Option.bind_eq_bind, Option.bind_some, Option.pure_def]
  split
  · exact Safe.pure i1
  · obtain ⟨s2, ⟨ok, v⟩, e2, i2⟩ := getDouble_safe s1 true i1
    simp only [e2, Option.bind_some]; exact Safe.pure i2

theorem checkEndOfLine_safe (s : St) (h : Inv s) : Safe (checkEndOfLine s) := by
  unfold checkEndOfLine
  obtain ⟨s1, r1, e1, i1⟩ := skipComment_safe s h
  simp only [e1, Option.bind_eq_bind, Option.bind_some, Option.pure_def]
  split
  · exact Safe.pure i1
  · obtain ⟨c, hc, _⟩ := rdp_some i1 0 (by simpa using i1.2.2)
    simp only [hc, Option.bind_some]; exact Safe.pure i1


theorem boundInf_safe (s : St) (sg : Int) (len : Nat) (h : Inv s) (hb : s.p + len ≤ s.line.length) : Safe (boundInf s sg len) := by
  unfold boundInf
  have i2 : Inv { s with p := s.p + len } := ⟨h.1, h.2.1, hb⟩
  obtain ⟨s3, r3, e3, i3⟩ := skipComment_safe _ i2
  obtain ⟨c3, hc3, _⟩ := rdp_some i3 0 (by simpa using i3.2.2)
  simp only [e3, hc3, Option.bind_eq_bind, Option.bind_some, Option.pure_def]
  split
  · exact Safe.pure h
  · exact Safe.pure ⟨i3.1, i3.2.1, i3.2.2⟩

theorem signLen_le {b : List Char} {i : Nat} {c : Char} (hc : rd b i = some c) (hi : i ≤ b.length) : i + (signLen c).2 ≤ b.length := by
  unfold signLen
  split
  · rename_i hcc
    have : c ≠ NUL := by intro e; subst e; simp [NUL] at hcc
    have := rd_ne_nul hc this; simp; omega
  · split
    · rename_i hcc
      have : c ≠ NUL := by intro e; subst e; simp [NUL] at hcc
      have := rd_ne_nul hc this; simp; omega
    · simpa using hi

theorem infLen_le (r : List Char) : infLen r ≤ r.length := by
  unfold infLen
  split
  · rename_i hp; have := prefixCI_len hp; simpa using this
  · split
    · rename_i hp; have := prefixCI_len hp; simpa using this
    · omega

theorem nextBound_safe (s : St) (h : Inv s) : Safe (nextBound s) := by
  unfold nextBound
  obtain ⟨s1, r1, e1, i1⟩ := skipComment_safe s h
  simp only [e1, Option.bind_eq_bind, Option.bind_some, Option.pure_def]
  split
  · exact Safe.pure i1
  · obtain ⟨c, hc, hc'⟩ := rdp_some i1 0 (by simpa using i1.2.2)
    simp only [hc, rest_some i1, Option.bind_some]
    split
    · have h1 := signLen_le hc' i1.2.2
      have h2 := infLen_le (List.drop (signLen c).2 (List.drop s1.p s1.line))
      have h3 : (List.drop (signLen c).2 (List.drop s1.p s1.line)).length = s1.line.length - (s1.p + (signLen c).2) := by
        simp
      exact boundInf_safe s1 _ _ i1 (by omega)
    · obtain ⟨s2, ⟨ok, v⟩, e2, i2⟩ := getDouble_safe s1 false i1
      simp only [e2, Option.bind_some]; exact Safe.pure i2

/-- `next_line` always answers; when it reports a line (0) the cursor points into that line's string -/
theorem nextLine_go_safe : ∀ (file : List (List Char)) (s : St), ∃ s' r, nextLine.go file s = some (s', r) ∧ (r = 0 → Inv s')
  | [], s => ⟨{ s with file := [] }, 1, by simp [nextLine.go], by simp⟩
  | raw :: more, s => by
    unfold nextLine.go
    obtain ⟨c0, hc0⟩ := rd_some (Nat.zero_le (cstr raw).length)
    simp only [hc0, Option.bind_eq_bind, Option.bind_some]
    split
    · split
      · exact nextLine_go_safe more _
      · split
        · rename_i k hk
          have hkl := sscanfS_len hk
          obtain ⟨p, hp, _, hp2⟩ := scanWhile_safe (fun c _ => isBlank c) (fun _ => isBlank_nul) (cstr raw) k.length 0 hkl
          simp only [hp, Option.bind_some]
          split
          · rename_i f hf
            have := sscanfS_len hf; simp at this
            exact ⟨_, 0, rfl, fun _ => ⟨rfl, rfl, by show p + f.length ≤ (cstr raw).length; omega⟩⟩
          · exact ⟨_, 0, rfl, fun _ => ⟨rfl, rfl, hp2⟩⟩
        · exact ⟨_, 1, rfl, by simp⟩
    · obtain ⟨p, hp, _, hp2⟩ := scanWhile_safe (fun c _ => isBlank c) (fun _ => isBlank_nul) (cstr raw) 0 0 (Nat.zero_le _)
      simp only [hp, Option.bind_some]
      split
      · rename_i f hf
        have := sscanfS_len hf; simp at this
        exact ⟨_, 0, rfl, fun _ => ⟨rfl, rfl, by show p + f.length ≤ (cstr raw).length; omega⟩⟩
      · exact nextLine_go_safe more _

theorem nextLine_safe (s : St) : ∃ s' r, nextLine s = some (s', r) ∧ (r = 0 → Inv s') :=
  nextLine_go_safe s.file { s with line := [], p := 0, pnull := true, unterm := false }

/-- `set_end_of_line` strictly inside the string keeps a terminated string -/
theorem setEndOfLine_inside (s : St) (h : Inv s) (hp : s.p < s.line.length) : ∃ s', setEndOfLine s = some s' ∧ Inv s' := by
  obtain ⟨h1, h2, h3⟩ := h
  simp only [setEndOfLine, h1, hp, Bool.false_eq_true, if_false, if_true]
  exact ⟨_, rfl, rfl, h2, by simpa using h3⟩

/-- `set_end_of_line` on the terminator itself leaves an unterminated string (the model records it); the one call that
follows in mps.c, check_end_of_line, still only looks at the character just written -/
theorem setEndOfLine_at_terminator (s : St) (h : Inv s) (hp : s.p = s.line.length) :
    ∃ s1, setEndOfLine s = some s1 ∧ s1.unterm = true ∧ ∃ s2, checkEndOfLine s1 = some (s2, false) := by
  rcases s with ⟨line, p0, pnull, unterm, ln, fn, key, field, nt, file⟩
  obtain ⟨h1, h2, h3⟩ := h
  simp only at h1 h2 h3 hp
  subst h1 h2 hp
  simp only [setEndOfLine, Nat.lt_irrefl, Bool.false_eq_true, if_false, Bool.not_false, Bool.and_true, decide_true, if_true]
  refine ⟨_, rfl, rfl, ?_⟩
  have hsc : scanWhile (fun c _ => isBlank c) (line ++ ['\n']) line.length 0 = some line.length := by
    simp [scanWhile, LpLex.scanFrom, isBlank]
  have hrd : rd (line ++ ['\n']) line.length = some '\n' := by simp [rd]
  simp [checkEndOfLine, skipComment, rdp, hsc, hrd, endLine]

end Qsx.MpsLex
