/-
The string pool of the symbol table (`add_string` / `grow_namelist`, symtab.c:566-630): the copy
`strcpy (namelist + strsize, s)` of `l = strlen s + 1` bytes stays inside the `strspace` bytes of
the pool, for every state with a non-empty pool whose live strings fit below `strsize`.
-/
import Qsx.Proofs.SymtabSound

namespace Qsx.Symtab

/-- what the pool maintenance relies on -/
structure PoolOK (t : T) : Prop where
  pos : 0 < t.strspace
  used : poolUsed t.ents ≤ t.strsize

theorem growPool_ents (t : T) : (growPool t).ents = t.ents := (growPool_same t).2.2.1

/-- one round of `grow_namelist`: either the pool doubles, or it is compacted (and the next round,
if there is one, doubles it) -/
theorem growPool_step (t : T) (h : PoolOK t) :
    PoolOK (growPool t) ∧ (growPool t).strsize ≤ t.strsize ∧ t.strspace ≤ (growPool t).strspace ∧
    ((growPool t).strspace = 2 * t.strspace ∨ ((growPool t).freed = 0 ∧ (growPool t).strspace = t.strspace)) := by
  unfold growPool
  split
  · refine ⟨⟨h.pos, le_refl _⟩, h.used, le_refl _, Or.inr ⟨rfl, rfl⟩⟩
  · refine ⟨⟨by show 0 < t.strspace * 2; have := h.pos; omega, h.used⟩, le_refl _, by show t.strspace ≤ t.strspace * 2; omega,
      Or.inl (by show t.strspace * 2 = 2 * t.strspace; omega)⟩

/-- with enough rounds the loop ends with room for `l` more bytes; "enough" is measured by how far
the pool is from `strsize + l`, counting two rounds per doubling -/
theorem addStringLoop_fits (l : Nat) : ∀ (fuel : Nat) (t : T), PoolOK t →
    2 * (t.strsize + l) + 2 ≤ fuel + 2 * t.strspace + (if t.freed = 0 then 1 else 0) →
    (addStringLoop fuel t l).strsize + l ≤ (addStringLoop fuel t l).strspace ∧ PoolOK (addStringLoop fuel t l) := by
  intro fuel
  induction fuel with
  | zero =>
    intro t h hf
    simp only [addStringLoop]
    refine ⟨?_, h⟩
    split at hf <;> omega
  | succ f ih =>
    intro t h hf
    unfold addStringLoop
    split
    · rename_i hgt
      obtain ⟨hok, hsz, hsp, hcase⟩ := growPool_step t h
      apply ih (growPool t) hok
      rcases hcase with hd | ⟨hfr, hsame⟩
      · -- doubled: at least one more unit of space than rounds needed
        have : 0 < t.strspace := h.pos
        split <;> split at hf <;> omega
      · -- compacted: this happens only when freed > 0 or the pool was already too small with freed = 0
        rw [hfr, hsame]
        simp only [if_true]
        by_cases hz : t.freed = 0
        · -- 2 * 0 ≥ strspace is impossible for a non-empty pool: this branch was a doubling
          exfalso
          have hpos := h.pos
          have : (growPool t).strspace = t.strspace := hsame
          unfold growPool at this
          rw [hz] at this
          simp only [Nat.mul_zero, ge_iff_le, Nat.le_zero_eq] at this
          split at this
          · rename_i h0; omega
          · have : t.strspace * 2 = t.strspace := this
            omega
        · rw [if_neg hz] at hf
          omega
    · rename_i hle
      exact ⟨by omega, h⟩

/-- `add_string`: when the loop is left there is room for the string and its terminator, so the copy
to `namelist + strsize` stays inside the pool; afterwards `strsize ≤ strspace` -/
theorem addString_fits (t : T) (s : Name) (h : PoolOK t) :
    let t' := addStringLoop (2 * (t.strsize + (s.length + 1)) + 64) t (s.length + 1)
    t'.strsize + (s.length + 1) ≤ t'.strspace ∧ (addString t s).strsize ≤ (addString t s).strspace ∧
    0 < (addString t s).strspace := by
  have hfit := addStringLoop_fits (s.length + 1) (2 * (t.strsize + (s.length + 1)) + 64) t h (by split <;> omega)
  refine ⟨hfit.1, ?_, ?_⟩
  · unfold addString; exact hfit.1
  · unfold addString; exact hfit.2.pos

end Qsx.Symtab
