/-
The string pool of the symbol table (`add_string` / `grow_namelist`, symtab.c:566-630): the copy
`strcpy (namelist + strsize, s)` of `l = strlen s + 1` bytes stays inside the `strspace` bytes of
the pool, for every state with a non-empty pool whose live strings fit below `strsize`.
-/
import Qsx.Proofs.SymtabSound

namespace Qsx.Symtab

/-- what the pool maintenance relies on -/
structure PoolOK (t : T) : Prop where
  pos : 0 < t.strspace
  used : poolUsed t.ents ≤ t.strsize

theorem growPool_ents (t : T) : (growPool t).ents = t.ents := (growPool_same t).2.2.1

/-- one round of `grow_namelist`: either the pool doubles, or it is compacted (and the next round,
if there is one, doubles it) -/
theorem growPool_step (t : T) (h : PoolOK t) :
    PoolOK (growPool t) ∧ (growPool t).strsize ≤ t.strsize ∧ t.strspace ≤ (growPool t).strspace ∧
    ((growPool t).strspace = 2 * t.strspace ∨ ((growPool t).freed = 0 ∧ (growPool t).strspace = t.strspace)) := by
  unfold growPool
  split
  · refine ⟨⟨h.pos, le_refl _⟩, h.used, le_refl _, Or.inr ⟨rfl, rfl⟩⟩
  · refine ⟨⟨by show 0 < t.strspace * 2; have := h.pos; omega, h.used⟩, le_refl _, by show t.strspace ≤ t.strspace * 2; omega,
      Or.inl (by show t.strspace * 2 = 2 * t.strspace; omega)⟩

/-- with enough rounds the loop ends with room for `l` more bytes; "enough" is measured by how far
the pool is from `strsize + l`, counting two rounds per doubling -/
theorem addStringLoop_fits (l : Nat) : ∀ (fuel : Nat) (t : T), PoolOK t →
    2 * (t.strsize + l) + 2 ≤ fuel + 2 * t.strspace + (if t.freed = 0 then 1 else 0) →
    (addStringLoop fuel t l).strsize + l ≤ (addStringLoop fuel t l).strspace ∧ PoolOK (addStringLoop fuel t l) := by
  intro fuel
  induction fuel with
  | zero =>
    intro t h hf
    simp only [addStringLoop]
    refine ⟨?_, h⟩
    split at hf <;> omega
  | succ f ih =>
    intro t h hf
    unfold addStringLoop
    split
    · rename_i hgt
      obtain ⟨hok, hsz, hsp, hcase⟩ := growPool_step t h
      apply ih (growPool t) hok
      rcases hcase with hd | ⟨hfr, hsame⟩
      · -- doubled: at least one more unit of space than rounds needed
        have : 0 < t.strspace := h.pos
        split <;> split at hf <;> omega
      · -- compacted: this happens only when freed > 0 or the pool was already too small with freed = 0
        rw [hfr, hsame]
        simp only [if_true]
        by_cases hz : t.freed = 0
        · -- 2 * 0 ≥ strspace is impossible for a non-empty pool: this branch was a doubling
          exfalso
          have hpos := h.pos
          have : (growPool t).strspace = t.strspace := hsame
          unfold growPool at this
          rw [hz] at this
          simp only [Nat.mul_zero, ge_iff_le, Nat.le_zero_eq] at this
          split at this
          · rename_i h0; omega
          · have : t.strspace * 2 = t.strspace := this
            omega
        · rw [if_neg hz] at hf
          omega
    · rename_i hle
      exact ⟨by omega, h⟩

/-- `add_string`: when the loop is left there is room for the string and its terminator, so the copy
to `namelist + strsize` stays inside the pool; afterwards `strsize ≤ strspace` -/
theorem addString_fits (t : T) (s : Name) (h : PoolOK t) :
    let t' := addStringLoop (2 * (t.strsize + (s.length + 1)) + 64) t (s.length + 1)
    t'.strsize + (s.length + 1) ≤ t'.strspace ∧ (addString t s).strsize ≤ (addString t s).strspace ∧
    0 < (addString t s).strspace := by
  have hfit := addStringLoop_fits (s.length + 1) (2 * (t.strsize + (s.length + 1)) + 64) t h (by split <;> omega)
  refine ⟨hfit.1, ?_, ?_⟩
  · unfold addString; exact hfit.1
  · unfold addString; exact hfit.2.pos

end Qsx.Symtab

namespace Qsx.Symtab

/-! ### the pool invariant over histories -/

def wt : Option Name → Nat
  | some s => s.length + 1
  | none => 0

def wsum (l : List (Option Name)) : Nat := (l.map wt).sum

theorem foldl_add_eq (f : Nat → Ent → Nat) (hf : ∀ a e, f a e = a + wt e.name) (l : List Ent) (a : Nat) :
    l.foldl f a = a + wsum (l.map (·.name)) := by
  induction l generalizing a with
  | nil => simp [wsum]
  | cons e l ih =>
    simp only [List.foldl_cons, List.map_cons]
    rw [ih, hf]
    unfold wsum
    simp only [List.map_cons, List.sum_cons]
    omega

theorem poolUsed_eq (ents : Array Ent) : poolUsed ents = wsum (ents.toList.map (·.name)) := by
  unfold poolUsed
  rw [← Array.foldl_toList, foldl_add_eq]
  · simp
  · intro a e
    split
    · rename_i s h; rw [h]; simp [wt]; omega
    · rename_i h; rw [h]; simp [wt]

theorem poolUsed_abs (t : T) : poolUsed t.ents = wsum (abs t) := poolUsed_eq t.ents

theorem wsum_append (a b : List (Option Name)) : wsum (a ++ b) = wsum a + wsum b := by
  simp [wsum]

theorem wsum_set_le (l : List (Option Name)) (d : Nat) (x : Option Name) :
    wsum (l.set d x) ≤ wsum l + wt x := by
  induction l generalizing d with
  | nil => simp [wsum]
  | cons a l ih =>
    cases d with
    | zero => simp [wsum]; omega
    | succ d =>
      have := ih d
      simp only [List.set_cons_succ, wsum, List.map_cons, List.sum_cons] at this ⊢
      omega

theorem wsum_dropLast_le (l : List (Option Name)) : wsum l.dropLast ≤ wsum l := by
  induction l with
  | nil => simp [wsum]
  | cons a l ih =>
    cases l with
    | nil => simp [wsum]
    | cons b l' =>
      simp only [List.dropLast_cons_cons, wsum, List.map_cons, List.sum_cons] at ih ⊢
      omega

theorem wsum_swapRemove_le (l : List (Option Name)) (d : Nat) (hd : d < l.length) :
    wsum (swapRemove l d) ≤ wsum l := by
  unfold swapRemove
  split
  · exact wsum_dropLast_le l
  · rename_i hne
    cases hgl : l.getLast? with
    | none => exact le_refl _
    | some x =>
      simp only
      -- l = l' ++ [x]
      have hl : l = l.dropLast ++ [x] := by
        have := List.dropLast_append_getLast? x hgl
        exact this.symm
      have hdl : d < l.dropLast.length := by
        rw [List.length_dropLast]; omega
      have hset : (l.set d x) = (l.dropLast.set d x) ++ [x] := by
        conv_lhs => rw [hl]
        rw [List.set_append_left _ _ hdl]
      rw [hset, List.dropLast_concat]
      have h1 := wsum_set_le l.dropLast d x
      have h2 : wsum l = wsum l.dropLast + wt x := by
        conv_lhs => rw [hl]
        rw [wsum_append]; simp [wsum]
      omega

/-- the pool invariant: a non-empty pool, the live strings below `strsize`, `strsize` inside the pool -/
structure PoolInv (t : T) : Prop where
  ok : PoolOK t
  le : t.strsize ≤ t.strspace

theorem create_poolInv (n : Nat) : PoolInv (create n) := by
  unfold create
  refine ⟨⟨?_, ?_⟩, ?_⟩
  · show 0 < (if (n == 0) = true then 1000 else n) * 5
    split
    · omega
    · rename_i h; simp at h; omega
  · simp [poolUsed]
  · simp

theorem grow_pool (t : T) : (grow t).strsize = t.strsize ∧ (grow t).strspace = t.strspace ∧ (grow t).ents = t.ents :=
  ⟨rfl, rfl, rfl⟩

theorem growWhile_pool (fuel : Nat) (t : T) :
    (growWhile fuel t).strsize = t.strsize ∧ (growWhile fuel t).strspace = t.strspace ∧ (growWhile fuel t).ents = t.ents := by
  induction fuel generalizing t with
  | zero => exact ⟨rfl, rfl, rfl⟩
  | succ f ih =>
    unfold growWhile
    split
    · obtain ⟨a, b, c⟩ := ih (grow t)
      exact ⟨a, b, c⟩
    · exact ⟨rfl, rfl, rfl⟩

theorem poolInv_of (t t' : T) (h : PoolInv t) (h1 : t'.strsize = t.strsize) (h2 : t'.strspace = t.strspace)
    (h3 : poolUsed t'.ents ≤ poolUsed t.ents) : PoolInv t' :=
  ⟨⟨by rw [h2]; exact h.ok.pos, by rw [h1]; exact le_trans h3 h.ok.used⟩, by rw [h1, h2]; exact h.le⟩

/-- `add_string` followed by storing the new name in some entry (a fresh one or entry `i`) -/
theorem addString_poolInv (t : T) (s : Name) (h : PoolOK t) (t' : T)
    (hents : poolUsed t'.ents ≤ poolUsed t.ents + (s.length + 1))
    (hs : t'.strsize = (addString t s).strsize) (hp : t'.strspace = (addString t s).strspace) :
    PoolInv t' := by
  have hfit := addStringLoop_fits (s.length + 1) (2 * (t.strsize + (s.length + 1)) + 64) t h (by split <;> omega)
  have hused := hfit.2.used
  rw [(addStringLoop_same _ t _).2.2.1] at hused
  have hss : (addString t s).strsize = (addStringLoop (2 * (t.strsize + (s.length + 1)) + 64) t (s.length + 1)).strsize + (s.length + 1) := rfl
  have hsp : (addString t s).strspace = (addStringLoop (2 * (t.strsize + (s.length + 1)) + 64) t (s.length + 1)).strspace := rfl
  refine ⟨⟨by rw [hp, hsp]; exact hfit.2.pos, by rw [hs, hss]; omega⟩, by rw [hs, hp, hss, hsp]; exact hfit.1⟩

theorem register_poolInv {t : T} (h : PoolInv t) (s : Option Name) (idx : Int) : PoolInv (register t s idx).1 := by
  unfold register
  have h0 : PoolInv (if idx < 0 then { t with indexOk := false } else t) := by
    split
    · exact poolInv_of t _ h rfl rfl (le_refl _)
    · exact h
  generalize (if idx < 0 then { t with indexOk := false } else t) = t0 at h0
  cases s with
  | none =>
    simp only
    obtain ⟨a, b, c⟩ := growWhile_pool 64 t0
    refine poolInv_of t0 _ h0 a b ?_
    show poolUsed ((growWhile 64 t0).ents.push _) ≤ _
    rw [c, poolUsed_eq, poolUsed_eq]
    simp [wsum, wt]
  | some n =>
    simp only
    cases hl : lookup t0 n with
    | some k => exact h0
    | none =>
      simp only
      obtain ⟨a, b, c⟩ := growWhile_pool 64 (addString t0 n)
      refine addString_poolInv t0 n h0.ok _ ?_ a b
      show poolUsed ((growWhile 64 (addString t0 n)).ents.push { name := some n, index := idx }) ≤ _
      rw [c, (addString_same t0 n).2.2.1, poolUsed_eq, poolUsed_eq]
      simp [wsum, wt]

theorem delete_poolInv {t : T} (hw : WF t) (h : PoolInv t) (s : Name) : PoolInv (delete t s).1 := by
  obtain ⟨he, _⟩ := delete_ents t s
  have hsz : (delete t s).1.strsize = t.strsize ∧ (delete t s).1.strspace = t.strspace := by
    unfold delete
    cases lookup t s with
    | none => exact ⟨rfl, rfl⟩
    | some d =>
      simp only
      split
      · exact ⟨rfl, rfl⟩
      · split <;> exact ⟨rfl, rfl⟩
  refine poolInv_of t _ h hsz.1 hsz.2 ?_
  rw [he]
  cases hl : lookup t s with
  | none => exact le_refl _
  | some d =>
    simp only
    have hd := nameAt_lt ((lookup_iff hw s d).mp hl)
    rw [poolUsed_eq, delEnts_abs t d hd, poolUsed_abs]
    exact wsum_swapRemove_le (abs t) d (by rw [abs_length]; exact hd)

theorem removeFromBucket_pool (t : T) (i : Nat) (os : Name) :
    (removeFromBucket t i os).strsize = t.strsize ∧ (removeFromBucket t i os).strspace = t.strspace ∧
    (removeFromBucket t i os).ents = t.ents := ⟨rfl, rfl, rfl⟩

theorem poolUsed_modify_le (ents : Array Ent) (i : Nat) (nm : Option Name) :
    poolUsed (ents.modify i (fun v => { v with name := nm })) ≤ poolUsed ents + wt nm := by
  rw [poolUsed_eq, poolUsed_eq, abs_modify_name]
  exact wsum_set_le _ i nm

theorem rename_poolInv {t : T} (h : PoolInv t) (i : Nat) (nn : Option Name) : PoolInv (rename t i nn).1 := by
  unfold rename
  split
  · exact h
  cases hk : nn.bind (lookup t) with
  | some k => exact h
  | none =>
    simp only
    -- the state after unlinking has the same pool numbers and entries
    have hu : ∀ t1 : T, (t1 = t ∨ ∃ os, t1 = removeFromBucket t i os) →
        t1.strsize = t.strsize ∧ t1.strspace = t.strspace ∧ t1.ents = t.ents := by
      rintro t1 (rfl | ⟨os, rfl⟩)
      · exact ⟨rfl, rfl, rfl⟩
      · exact removeFromBucket_pool t i os
    cases hold : nameAt t i with
    | none =>
      simp only
      cases nn with
      | none =>
        simp only
        refine poolInv_of t _ h rfl rfl ?_
        have := poolUsed_modify_le t.ents i none
        simpa [wt] using this
      | some ns =>
        simp only
        refine addString_poolInv t ns h.ok _ ?_ rfl rfl
        show poolUsed ((addString t ns).ents.modify i _) ≤ _
        rw [(addString_same t ns).2.2.1]
        have := poolUsed_modify_le t.ents i (some ns)
        simpa [wt] using this
    | some os =>
      simp only
      obtain ⟨a, b, c⟩ := removeFromBucket_pool t i os
      have h1 : PoolInv (removeFromBucket t i os) := poolInv_of t _ h a b (by rw [c])
      cases nn with
      | none =>
        simp only
        refine poolInv_of t _ h a b ?_
        show poolUsed ((removeFromBucket t i os).ents.modify i _) ≤ _
        rw [c]
        have := poolUsed_modify_le t.ents i none
        simpa [wt] using this
      | some ns =>
        simp only
        refine addString_poolInv (removeFromBucket t i os) ns h1.ok _ ?_ rfl rfl
        show poolUsed ((addString (removeFromBucket t i os) ns).ents.modify i _) ≤ _
        rw [(addString_same (removeFromBucket t i os) ns).2.2.1]
        have := poolUsed_modify_le (removeFromBucket t i os).ents i (some ns)
        simpa [wt] using this

end Qsx.Symtab
