import Qsx.Model.Cap

namespace Qsx.Cap
open Qsx

theorem extraRows_pos : 0 < Gen.extraRows := by decide
theorem extraCols_pos : 0 < Gen.extraCols := by decide

theorem grow_gt (size n extra : Nat) (h : n ≤ size) (he : 0 < extra) : n < grow size n extra := by
  unfold grow; split <;> omega

theorem grow_ge (size n extra : Nat) : size ≤ grow size n extra := by
  unfold grow; split <;> omega

/-- **One step.**  From a state satisfying the invariant every operation writes only inside the
(re)allocated arrays and re-establishes the invariant. -/
theorem step_safe (s : S) (o : Op) (h : Inv s) : WritesInBounds (step s o).1 (step s o).2 ∧ Inv (step s o).1 := by
  obtain ⟨h1, h2, h3, h4, h5, h6⟩ := h
  have er := extraRows_pos
  have ec := extraCols_pos
  cases o with
  | addRow =>
    have a := grow_gt s.rowsize s.nrows Gen.extraRows h1 er
    have b := grow_gt s.colsize s.ncols Gen.extraCols h2 ec
    have c := grow_gt s.matcolsize s.matcols Gen.extraCols h4 ec
    refine ⟨⟨a, b, trivial, c⟩, ?_⟩
    simp only [step, Inv]
    refine ⟨a, b, h3, c, by omega, by omega⟩
  | addCol =>
    have b := grow_gt s.colsize s.ncols Gen.extraCols h2 ec
    have d := grow_gt s.structsize s.nstruct Gen.extraCols h3 ec
    have c := grow_gt s.matcolsize s.matcols Gen.extraCols h4 ec
    refine ⟨⟨trivial, b, d, c⟩, ?_⟩
    simp only [step, Inv]
    refine ⟨h1, b, d, c, by omega, by omega⟩
  | delRows k =>
    refine ⟨⟨trivial, trivial, trivial, trivial⟩, ?_⟩
    simp only [step, Inv]
    refine ⟨by omega, by omega, h3, by omega, by omega, by omega⟩
  | delCols k =>
    refine ⟨⟨trivial, trivial, trivial, trivial⟩, ?_⟩
    simp only [step, Inv]
    refine ⟨h1, by omega, by omega, by omega, by omega, by omega⟩

theorem run_inv (s : S) (ops : List Op) (h : Inv s) : Inv (run s ops) := by
  induction ops generalizing s with
  | nil => exact h
  | cons o os ih =>
    unfold run at ih ⊢
    simp only [List.foldl_cons]
    exact ih _ (step_safe s o h).2

/-- **Every history.**  After any sequence of additions and deletions, the next operation still
writes in bounds: the counts never run past the capacities, whatever the interleaving. -/
theorem history_safe (ops : List Op) (o : Op) :
    WritesInBounds (step (run {} ops) o).1 (step (run {} ops) o).2 :=
  (step_safe _ o (run_inv {} ops (by simp [Inv]))).1

end Qsx.Cap
