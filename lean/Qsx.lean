import Qsx.Model.Basic
import Qsx.Model.Cert
