import Qsx.Model.Wire
import Qsx.Model.Driver
import Qsx.Model.Num
import Qsx.Model.BasisFile
open Qsx

def hexVal (c : Char) : Option Nat :=
  if '0' ≤ c && c ≤ '9' then some (c.toNat - '0'.toNat)
  else if 'a' ≤ c && c ≤ 'f' then some (c.toNat - 'a'.toNat + 10) else none

/-- hex string ↦ the characters (bytes) it encodes; `-` is the empty string -/
def unhex (s : String) : Option (List Char) :=
  if s == "-" then some [] else
  let rec go : List Char → Option (List Char)
    | [] => some []
    | [_] => none
    | a :: b :: r => do
      let x ← hexVal a; let y ← hexVal b
      let t ← go r
      pure (Char.ofNat (16 * x + y) :: t)
  go s.toList

def pBool : P Bool := do let n ← pNat; pure (n != 0)

/-- `solveFail fstatus iter cstat rstat x y infeasFail bfail bstatus getFail x2 y2` -/
def pStage (cx : Ctx) : P Stage := do
  let solveFail ← pBool; let fstatus ← pNat; let iter ← pNat
  let cs ← pStat; let rs ← pStat
  let x ← pRatArr cx; let y ← pRatArr cx
  let infeasFail ← pBool
  let bfail ← pBool; let bstatus ← pNat; let getFail ← pBool
  let x2 ← pRatArr cx; let y2 ← pRatArr cx
  pure { solveFail, fstatus, iter, basis := (cs, rs), x, y, infeasFail,
         bstat := { fail := bfail, status := bstatus, getFail, x2, y2 } }

def fmtOpt (cx : Ctx) (key : String) : Option (Array Rat) → String
  | none => key ++ " untouched"
  | some a => fmtArr cx key a

/-- one protocol line ↦ answer lines (without the terminating ".") -/
def answer (cx : Ctx) (toks : List String) : Ctx × List String :=
  match toks with
  | ["inf", a, b] =>
    match parseRat? a, parseRat? b with
    | some p, some n => ({ pinf := p, ninf := n }, ["ok"])
    | _, _ => (cx, ["bad-op"])
  | "opttest" :: rest =>
    let r : Option (List String) := (do
      let P ← pILP cx
      let cs ← pStat; let rs ← pStat
      let ps ← pRatArr cx; let ds ← pRatArr cx
      let reason := optReason P cs rs ps ds
      match optimalTest P cs rs ps ds with
      | none => pure ["rv 0", s!"reason {repr reason}"]
      | some c => pure ["rv 1", s!"reason {repr reason}",
          s!"cache {fmtRat cx c.val}",
          fmtArr cx "cache.x" c.x, fmtArr cx "cache.rc" c.rc,
          fmtArr cx "cache.slack" c.slack, fmtArr cx "cache.pi" c.pi,
          fmtArr cx "psol" (optPsolAfter P cs rs ps)]).run' rest
    (cx, r.getD ["bad-op"])
  | "inftest" :: rest =>
    let r : Option (List String) := (do
      let P ← pILP cx
      let ds ← pRatArr cx
      pure [s!"rv {if infeasibleTest P cx.pinf cx.ninf ds then 1 else 0}"]).run' rest
    (cx, r.getD ["bad-op"])
  | "solve" :: rest =>
    let r : Option (List String) := (do
      let P ← pILP cx
      let dbl ← pStage cx
      let n ← pNat
      let rungs ← pMany n (pStage cx)
      let o := solve P cx.pinf cx.ninf dbl rungs.toList
      let bs := match o.basis with
        | none => "basis none"
        | some b => s!"basis {fmtStat b.1} {fmtStat b.2}"
      if o.rval != 0 then pure ["rval 1", s!"stages {o.stagesUsed}"]
      else pure ["rval 0", s!"status {o.status}", fmtOpt cx "xout" o.xOut, fmtOpt cx "yout" o.yOut, bs,
                 s!"stages {o.stagesUsed}"]).run' rest
    (cx, r.getD ["bad-op"])
  | ["scan", hex] =>
    match unhex hex with
    | none => (cx, ["bad-op"])
    | some cs =>
      let (n, v) := Qsx.Num.scan cs
      match v with
      | .none => (cx, [s!"n {n}", "val none"])
      | .ok q => (cx, [s!"n {n}", s!"val {fmtRat cx q}"])
  | ["brt", free, cs, rs] =>
    -- basis-file round trip: free bits (string of 0/1), cstat, rstat
    let fl := if free == "-" then [] else free.toList.map (· == '1')
    let cl := if cs == "-" then [] else cs.toList.map Char.toNat
    let rl := if rs == "-" then [] else rs.toList.map Char.toNat
    let showLine : Qsx.BasisFile.Line → String
      | .XL c r => s!"XL:{c}:{r}" | .XU c r => s!"XU:{c}:{r}" | .UL c => s!"UL:{c}" | .LL c => s!"LL:{c}"
    match Qsx.BasisFile.encode cl rl with
    | none => (cx, ["enc fail"])
    | some ls =>
      let d := Qsx.BasisFile.decode fl rl.length ls
      (cx, ["enc ok", "lines " ++ toString ls.length ++ ls.foldl (fun s l => s ++ " " ++ showLine l) "",
            s!"dec {fmtStat d.1.toArray} {fmtStat d.2.toArray}",
            s!"norm {fmtStat (Qsx.BasisFile.normalizeC fl cl).toArray} {fmtStat (Qsx.BasisFile.normalizeR rl).toArray}"])
  | "tointernal" :: rest =>
    let r : Option (List String) := (do
      let L ← pLP cx
      pure [fmtILP cx (L.toInternal cx.pinf)]).run' rest
    (cx, r.getD ["bad-op"])
  | "certok" :: rest =>
    let r : Option (List String) := (do
      let L ← pLP cx
      let x ← pRatArr cx; let pi ← pRatArr cx
      let ok := L.certOK cx.pinf cx.ninf x pi
      pure [s!"ok {if ok then 1 else 0}", s!"val {fmtRat cx (L.objv (rget x))}",
            fmtArr cx "slack" (tab L.nr (L.slackOf (rget x))),
            fmtArr cx "rc" (tab L.nc fun j => dzOf ((L.toInternal cx.pinf).scol j) (rget pi))]).run' rest
    (cx, r.getD ["bad-op"])
  | "farkas" :: rest =>
    let r : Option (List String) := (do
      let L ← pLP cx
      let y ← pRatArr cx
      pure [s!"ok {if L.checkFarkas cx.pinf cx.ninf y then 1 else 0}"]).run' rest
    (cx, r.getD ["bad-op"])
  | "ray" :: rest =>
    let r : Option (List String) := (do
      let L ← pLP cx
      let x ← pRatArr cx; let d ← pRatArr cx
      pure [s!"ok {if L.checkRay cx.pinf cx.ninf x d then 1 else 0}"]).run' rest
    (cx, r.getD ["bad-op"])
  | _ => (cx, ["bad-op"])

partial def loop (h : IO.FS.Stream) (out : IO.FS.Stream) (cx : Ctx) : IO Unit := do
  let line ← h.getLine
  if line.isEmpty then return ()
  let toks := (line.trimAscii.toString.splitOn " ").filter (· ≠ "")
  if toks.isEmpty then loop h out cx else
  let (cx', ans) := answer cx toks
  for a in ans do out.putStrLn a
  out.putStrLn "."
  loop h out cx'

def main : IO Unit := do
  let out ← IO.getStdout
  loop (← IO.getStdin) out {}
  out.flush
