import Qsx.Model.Wire
import Qsx.Model.Verdict
import Qsx.Model.LinAlg
import Qsx.Model.Xform
import Qsx.Model.Round
import Qsx.Model.SolFile
import Qsx.Model.Cap
import Qsx.Model.LpBounds
import Qsx.Model.Store
import Qsx.Model.Multi
import Qsx.Model.Driver
import Qsx.Model.Num
import Qsx.Model.BasisFile
import Qsx.Model.Spec
import Qsx.Model.Session
import Qsx.Model.Log
import Qsx.Model.Ratio
import Qsx.Model.Symtab
import Qsx.Model.LpLex
import Qsx.Model.MpsLex
open Qsx

def hexVal (c : Char) : Option Nat :=
  if '0' ≤ c && c ≤ '9' then some (c.toNat - '0'.toNat)
  else if 'a' ≤ c && c ≤ 'f' then some (c.toNat - 'a'.toNat + 10) else none

/-- hex string ↦ the characters (bytes) it encodes; `-` is the empty string -/
def unhex (s : String) : Option (List Char) :=
  if s == "-" then some [] else
  let rec go : List Char → Option (List Char)
    | [] => some []
    | [_] => none
    | a :: b :: r => do
      let x ← hexVal a; let y ← hexVal b
      let t ← go r
      pure (Char.ofNat (16 * x + y) :: t)
  go s.toList

def pBool : P Bool := do let n ← pNat; pure (n != 0)

/-- `solveFail fstatus iter cstat rstat x y infeasFail bfail bstatus getFail x2 y2` -/
def pStage (cx : Ctx) : P Stage := do
  let solveFail ← pBool; let fstatus ← pNat; let iter ← pNat
  let cs ← pStat; let rs ← pStat
  let x ← pRatArr cx; let y ← pRatArr cx
  let infeasFail ← pBool
  let bfail ← pBool; let bstatus ← pNat; let getFail ← pBool
  let x2 ← pRatArr cx; let y2 ← pRatArr cx
  pure { solveFail, fstatus, iter, basis := (cs, rs), x, y, infeasFail,
         bstat := { fail := bfail, status := bstatus, getFail, x2, y2 } }

def fmtOpt (cx : Ctx) (key : String) : Option (Array Rat) → String
  | none => key ++ " untouched"
  | some a => fmtArr cx key a

def hexStr (s : String) : String :=
  if s.isEmpty then "-" else
  s.toList.foldl (fun acc c =>
    let n := c.toNat
    let d (k : Nat) : Char := if k < 10 then Char.ofNat (48 + k) else Char.ofNat (87 + k)
    acc.push (d (n / 16)) |>.push (d (n % 16))) ""

def pName : P (Option String) := do
  let t ← pTok
  if t == "-" then pure none else
  match unhex t with
  | some cs => pure (some (String.ofList cs))
  | none => failure

def pIntEnt (cx : Ctx) : P (List (Int × Rat)) := do
  let k ← pNat
  let a ← pMany k (do let i ← pInt; let v ← pRat cx; pure (i, v))
  pure a.toList

def pChar : P Char := do let t ← pTok; pure t.front

open Qsx.Spec in
/-- edit operations in the harness's command syntax ↦ `Spec.Op` (the slot token already consumed) -/
def pOp (cx : Ctx) (cmd : String) : P Op := do
  match cmd with
  | "addcol" => do
    let n ← pName; let o ← pRat cx; let l ← pRat cx; let u ← pRat cx; let e ← pIntEnt cx
    pure (.addCol n o l u e)
  | "newcol" => do
    let n ← pName; let o ← pRat cx; let l ← pRat cx; let u ← pRat cx
    pure (.addCol n o l u [])
  | "addrow" => do
    let n ← pName; let s ← pChar; let r ← pRat cx; let e ← pIntEnt cx
    pure (.addRow n s r 0 e)
  | "addrrow" => do
    let n ← pName; let s ← pChar; let r ← pRat cx; let g ← pRat cx; let e ← pIntEnt cx
    pure (.addRow n s r g e)
  | "newrow" => do
    let n ← pName; let s ← pChar; let r ← pRat cx
    pure (.addRow n s r 0 [])
  | "delrow" => do let i ← pInt; pure (.delRows [i])
  | "delcol" => do let i ← pInt; pure (.delCols [i])
  | "delrows" => do let k ← pNat; let a ← pMany k pInt; pure (.delRows a.toList)
  | "delcols" => do let k ← pNat; let a ← pMany k pInt; pure (.delCols a.toList)
  | "delsetrows" => do
    let k ← pNat; let a ← pMany k pInt
    pure (.delRows ((List.range k).filter (fun i => a[i]! == 1) |>.map Int.ofNat))
  | "delsetcols" => do
    let k ← pNat; let a ← pMany k pInt
    pure (.delCols ((List.range k).filter (fun i => a[i]! == 1) |>.map Int.ofNat))
  | "delnamedrow" => do let n ← pName; pure (.delNamedRows [n.getD ""])
  | "delnamedcol" => do let n ← pName; pure (.delNamedCols [n.getD ""])
  | "delnamedrows" => do let k ← pNat; let a ← pMany k pName; pure (.delNamedRows (a.toList.map (·.getD "")))
  | "delnamedcols" => do let k ← pNat; let a ← pMany k pName; pure (.delNamedCols (a.toList.map (·.getD "")))
  | "chgcoef" => do let r ← pInt; let c ← pInt; let v ← pRat cx; pure (.chgCoef r c v)
  | "chgobj" => do let c ← pInt; let v ← pRat cx; pure (.chgObj c v)
  | "chgrhs" => do let r ← pInt; let v ← pRat cx; pure (.chgRhs r v)
  | "chgrange" => do let r ← pInt; let v ← pRat cx; pure (.chgRange r v)
  | "chgsense" => do let r ← pInt; let s ← pChar; pure (.chgSenses [(r, s)])
  | "chgsenses" => do
    let k ← pNat; let a ← pMany k (do let r ← pInt; let s ← pChar; pure (r, s)); pure (.chgSenses a.toList)
  | "chgbound" => do let j ← pInt; let lu ← pChar; let v ← pRat cx; pure (.chgBounds [(j, lu, v)])
  | "chgbounds" => do
    let k ← pNat; let a ← pMany k (do let j ← pInt; let lu ← pChar; let v ← pRat cx; pure (j, lu, v))
    pure (.chgBounds a.toList)
  | "chgobjsense" => do
    let t ← pTok
    if t == "min" then pure (.chgObjSense 1) else if t == "max" then pure (.chgObjSense (-1))
    else match t.toInt? with | some z => pure (.chgObjSense z) | none => failure
  | _ => failure

def specOfLP (L : LP) : Qsx.Spec.Prob :=
  { isMin := L.isMin
    cols := (List.range L.nc).toArray.map fun j => { name := s!"x{j}", obj := (L.col j).obj, lo := (L.col j).lo, up := (L.col j).up }
    rows := (List.range L.nr).toArray.map fun i =>
      let r := L.row i
      { name := s!"c{i}", sense := r.sense, rhs := r.rhs, range := if r.sense == 'R' then r.range else 0,
        ent := r.ent.mergeSort (fun a b => a.1 ≤ b.1) } }

def fmtSpec (cx : Ctx) (p : Qsx.Spec.Prob) : List String :=
  let cols := p.cols.foldl (fun s c => s ++ " " ++ fmtRat cx c.obj ++ " " ++ fmtRat cx c.lo ++ " " ++ fmtRat cx c.up) ""
  let rows := p.rows.foldl (fun s r => s ++ " " ++ r.sense.toString ++ " " ++ fmtRat cx r.rhs ++ " " ++ fmtRat cx r.range ++ " " ++
      toString r.ent.length ++ r.ent.foldl (fun t e => t ++ " " ++ toString e.1 ++ " " ++ fmtRat cx e.2) "") ""
  [s!"api lp {if p.isMin then "min" else "max"} {p.cols.size} {p.rows.size}" ++ cols ++ rows,
   s!"nzcount {Qsx.Spec.nzcount p}",
   s!"colnames {p.cols.size}" ++ p.cols.foldl (fun s c => s ++ " " ++ hexStr c.name) "",
   s!"rownames {p.rows.size}" ++ p.rows.foldl (fun s r => s ++ " " ++ hexStr r.name) ""]

structure DState where
  cx : Ctx := {}
  slots : Array (Option Qsx.Spec.Prob) := Array.replicate 16 none

/-- commands that act on the reference-model slots; `none` = not such a command -/
def specAnswer (st : DState) (toks : List String) : Option (DState × List String) :=
  match toks with
  | ["create", k, sense] =>
    match k.toNat? with
    | some k => if k < 16 then some ({ st with slots := st.slots.set! k (some { isMin := sense != "max" }) }, ["rc 0"]) else some (st, ["bad-op"])
    | none => some (st, ["bad-op"])
  | "new" :: k :: rest =>
    match k.toNat?, (pLP st.cx).run' rest with
    | some k, some L => if k < 16 then some ({ st with slots := st.slots.set! k (some (specOfLP L)) }, ["ok"]) else some (st, ["bad-op"])
    | _, _ => some (st, ["bad-op"])
  | "newcg" :: k :: rest =>       -- same problem, built rows-first / columns-later on the C side
    match k.toNat?, (pLP st.cx).run' rest with
    | some k, some L => if k < 16 then some ({ st with slots := st.slots.set! k (some (specOfLP L)) }, ["ok"]) else some (st, ["bad-op"])
    | _, _ => some (st, ["bad-op"])
  | ["free", k] =>
    match k.toNat? with
    | some k => if k < 16 then some ({ st with slots := st.slots.set! k none }, ["ok"]) else some (st, ["bad-op"])
    | none => some (st, ["bad-op"])
  | ["copy", a, b] =>
    match a.toNat?, b.toNat? with
    | some a, some b =>
      if a < 16 && b < 16 then
        match st.slots[a]! with
        | some p => some ({ st with slots := st.slots.set! b (some p) }, ["rc 0"])
        | none => some (st, ["bad-op empty-slot"])
      else some (st, ["bad-op"])
    | _, _ => some (st, ["bad-op"])
  | ["dumpapi", k] =>
    match k.toNat? with
    | some k => match st.slots.getD k none with
      | some p => some (st, fmtSpec st.cx p)
      | none => some (st, ["bad-op empty-slot"])
    | none => some (st, ["bad-op"])
  | ["getcoef", k, r, c] =>
    match k.toNat?, r.toInt?, c.toInt? with
    | some k, some r, some c => match st.slots.getD k none with
      | some p => match Qsx.Spec.getCoef p r c with
        | some v => some (st, ["rc 0", s!"coef {fmtRat st.cx v}"])
        | none => some (st, ["rc 1"])
      | none => some (st, ["bad-op empty-slot"])
    | _, _, _ => some (st, ["bad-op"])
  | [cmd, k, nm] =>
    if cmd == "colindex" || cmd == "rowindex" then
      match k.toNat?, (pName).run' [nm] with
      | some k, some n => match st.slots.getD k none with
        | some p =>
          let r := if cmd == "colindex" then Qsx.Spec.colIndex? p (n.getD "") else Qsx.Spec.rowIndex? p (n.getD "")
          match r with
          | some i => some (st, ["rc 0", s!"index {i}"])
          | none => some (st, ["rc 1"])
        | none => some (st, ["bad-op empty-slot"])
      | _, _ => some (st, ["bad-op"])
    else specOp st toks
  | _ => specOp st toks
where
  specOp (st : DState) (toks : List String) : Option (DState × List String) :=
    match toks with
    | cmd :: k :: rest =>
      if !(["addcol", "newcol", "addrow", "addrrow", "newrow", "delrow", "delcol", "delrows", "delcols", "delsetrows", "delsetcols",
            "delnamedrow", "delnamedcol", "delnamedrows", "delnamedcols", "chgcoef", "chgobj", "chgrhs", "chgrange", "chgsense",
            "chgsenses", "chgbound", "chgbounds", "chgobjsense"].contains cmd) then none else
      match k.toNat?, (pOp st.cx cmd).run' rest with
      | some k, some op => match st.slots.getD k none with
        | some p =>
          let (p', r) := Qsx.Spec.step p op
          some ({ st with slots := st.slots.set! k (some p') }, [if r == .ok then "rc 0" else "rc 1"])
        | none => some (st, ["bad-op empty-slot"])
      | _, _ => some (st, ["bad-op"])
    | _ => none

/-! symbol-table sessions (C06): names are hex strings, `-` = NULL -/
def stHexVal (c : Char) : Nat :=
  if '0' ≤ c && c ≤ '9' then c.toNat - '0'.toNat
  else if 'a' ≤ c && c ≤ 'f' then c.toNat - 'a'.toNat + 10
  else if 'A' ≤ c && c ≤ 'F' then c.toNat - 'A'.toNat + 10 else 0

def stUnhex : List Char → List Nat
  | a :: b :: r => (stHexVal a * 16 + stHexVal b) :: stUnhex r
  | _ => []

def stHexDigit (n : Nat) : Char := if n < 10 then Char.ofNat (48 + n) else Char.ofNat (87 + n)

def stHexOf (bs : List Nat) : String :=
  if bs.isEmpty then "00" else String.ofList (bs.flatMap fun b => [stHexDigit (b / 16), stHexDigit (b % 16)])

def pStName : P (Option Qsx.Symtab.Name) := do
  let t ← pTok
  if t == "-" then pure none else pure (some (stUnhex t.toList))

def symtabDump (t : Qsx.Symtab.T) : List String :=
  [s!"st {t.ents.size} {t.nameSpace} {t.hashspace} {if t.indexOk then 1 else 0} {t.strsize} {t.strspace} {t.freed}"] ++
  ((List.range t.ents.size).map fun i =>
    let e := t.ents.getD i default
    s!"ent {i} {match e.name with | some n => stHexOf n | none => "-"} {e.index}") ++
  ((List.range t.hashspace).filterMap fun x =>
    let l := t.buckets.getD x []
    if l.isEmpty then none else some (s!"chain {x} " ++ " ".intercalate (l.map toString)))

/-- `symtab <init> <n> op*n` with ops `reg <hex|-> idx | del hex | ren i <hex|-> | look hex | getidx hex | reset k hex*k`:
after every op the result line and the dump -/
def symtabSession : P (List String) := do
  let init ← pNat
  let n ← pNat
  let mut t := Qsx.Symtab.create init
  let mut out : List String := ["new 0"] ++ symtabDump t
  for _ in [0:n] do
    let op ← pTok
    if op == "reg" then
      let nm ← pStName; let idx ← pInt
      let (t', ex) := Qsx.Symtab.register t nm idx
      t := t'
      out := out ++ [s!"reg 0 {if ex then 1 else 0}"]
    else if op == "del" then
      let nm ← pStName
      match nm with
      | some s => let (t', rc) := Qsx.Symtab.delete t s; t := t'; out := out ++ [s!"del {rc}"]
      | none => failure
    else if op == "ren" then
      let i ← pNat; let nm ← pStName
      let (t', rc) := Qsx.Symtab.rename t i nm
      t := t'
      out := out ++ [s!"ren {rc}"]
    else if op == "look" then
      let nm ← pStName
      match nm with
      | some s => match Qsx.Symtab.lookup t s with
        | some k => out := out ++ [s!"look 0 {k}"]
        | none => out := out ++ ["look 1 -1"]
      | none => failure
    else if op == "getidx" then
      let nm ← pStName
      match nm with
      | some s => let (rc, k) := Qsx.Symtab.getindex t s; out := out ++ [s!"getidx {rc} {k}"]
      | none => failure
    else if op == "reset" then
      let k ← pNat
      let names ← pMany k pStName
      let (t', rc) := Qsx.Symtab.indexReset t (names.toList.filterMap id)
      t := t'
      out := out ++ [s!"reset {rc}"]
    else failure
    out := out ++ symtabDump t
  pure out


/-- `lplex <hex bytes|-> <n> op*n` with the ops of harness/qsx_lplex.c (without the `lx` prefix): one answer line per op,
`lx rc eof line_num p field firstCol sense bound [extra]`; `lx OOB` when the model read behind the string terminator -/
def lplexSession : P (List String) := do
  let hexb ← pTok
  let bytes ← (unhex hexb : Option (List Char))
  let n ← pNat
  let fmtB : Qsx.LpLex.Bnd → String
    | .val q => ratToStr q
    | .pinf => "inf"
    | .ninf => "-inf"
  let show_ (s : Qsx.LpLex.St) (rc : Int) (extra : String) : String :=
    s!"lx {rc} {if s.eof then 1 else 0} {s.lineNum} {s.p} {if s.field.isEmpty then "00" else hexStr (String.ofList s.field)} {if s.firstCol then 1 else 0} {s.sense.toNat} {fmtB s.bound}{extra}"
  let words : P (List (List Char)) := do
    let k ← pNat
    let ws ← pMany k (do let t ← pTok; (unhex t : Option (List Char)))
    pure ws.toList
  match Qsx.LpLex.init (Qsx.LpLex.chunks (Qsx.Gen.namebufsize - 2) bytes) with
  | none => pure ["lx OOB"]
  | some s0 =>
  let mut s := s0
  let mut out : List String := [show_ s0 0 ""]
  let mut dead := false
  for _ in [0:n] do
    let op ← pTok
    let r : Option (Qsx.LpLex.St × Int × String) ←
      (match op with
      | "nf" => pure ((Qsx.LpLex.nextField s true).map fun (a, r) => (a, r, ""))
      | "nfl" => pure ((Qsx.LpLex.nextField s false).map fun (a, r) => (a, r, ""))
      | "pf" => pure ((Qsx.LpLex.prevField s).map fun a => (a, 0, ""))
      | "nv" => pure ((Qsx.LpLex.nextVar s).map fun (a, r) => (a, r, ""))
      | "tkw" => do let w ← words; pure (some (s, Qsx.LpLex.testKeyword s w, ""))
      | "kw" => do let w ← words; pure ((Qsx.LpLex.keyword s w).map fun (a, r) => (a, r, ""))
      | "colon" => pure ((Qsx.LpLex.colon s).map fun (a, r) => (a, r, ""))
      | "hc" => pure ((Qsx.LpLex.hasColon s).map fun (a, r) => (a, r, ""))
      | "nc" => pure ((Qsx.LpLex.nextConstraint s).map fun (a, r) => (a, r, ""))
      | "sign" => pure ((Qsx.LpLex.sign s).map fun (a, r, sg) => (a, r, s!" {sg}"))
      | "nis" => do let t ← pTok; let w ← (unhex t : Option (List Char)); pure ((Qsx.LpLex.testNextIs s w).map fun (a, r) => (a, r, ""))
      | "val" => pure ((Qsx.LpLex.value s).map fun (a, r, v) => (a, r, " " ++ ratToStr (v.getD 7)))
      | "pbv" => pure ((Qsx.LpLex.possibleBoundValue s).map fun (a, r) => (a, r, ""))
      | "ts" => do let a ← pNat; pure ((Qsx.LpLex.testSense s (a != 0)).map fun (a, r) => (a, r, ""))
      | "sense" => pure ((Qsx.LpLex.readSense s).map fun (a, r) => (a, r, ""))
      | "cst" => pure ((Qsx.LpLex.checkSubjectTo s).map fun (a, r) => (a, r, ""))
      | _ => failure : P (Option (Qsx.LpLex.St × Int × String)))
    if dead then out := out ++ ["lx OOB"] else
    match r with
    | some (s', rc, extra) => s := s'; out := out ++ [show_ s' rc extra]
    | none => dead := true; out := out ++ ["lx OOB"]
  pure out


/-- `mpslex <hex bytes|-> <n> op*n` with the ops of harness/qsx_mpslex.c (without the `mx` prefix): one answer line per op,
`mx rc pnull line_num p field_num key field [extra]`; `mx OOB` when the model dereferenced a null cursor or read behind the
string terminator -/
def mpslexSession : P (List String) := do
  let hexb ← pTok
  let bytes ← (unhex hexb : Option (List Char))
  let n ← pNat
  let hx (l : List Char) : String := if l.isEmpty then "00" else hexStr (String.ofList l)
  let show_ (s : Qsx.MpsLex.St) (rc : Int) (extra : String) : String :=
    s!"mx {rc} {if s.pnull then 1 else 0} {s.lineNum} {if s.pnull then 0 else s.p} {s.fieldNum} {hx s.key} {hx s.field}{extra}"
  let fmtB : Qsx.LpLex.Bnd → String
    | .val q => ratToStr q
    | .pinf => "inf"
    | .ninf => "-inf"
  let s0 : Qsx.MpsLex.St := { file := Qsx.LpLex.chunks (Qsx.Gen.namebufsize - 2) bytes }
  let mut s := s0
  let mut out : List String := [show_ s0 0 ""]
  let mut dead := false
  for _ in [0:n] do
    let op ← pTok
    let r : Option (Qsx.MpsLex.St × Int × String) ←
      (match op with
      | "nl" => pure ((Qsx.MpsLex.nextLine s).map fun (a, r) => (a, r, ""))
      | "nf" => pure ((Qsx.MpsLex.nextField s).map fun (a, r) => (a, r, ""))
      | "coef" => pure ((Qsx.MpsLex.nextCoef s).map fun (a, r, v) => (a, r, " " ++ ratToStr (v.getD 7)))
      | "bound" => pure ((Qsx.MpsLex.nextBound s).map fun (a, r, v) => (a, r, " " ++ (match v with | some b => fmtB b | none => "7")))
      | "isnum" => do let _ ← pTok; pure ((Qsx.MpsLex.nextFieldIsNumber s).map fun (a, b) => (a, 0, if b then " 1" else " 0"))
      | "eol" => pure ((Qsx.MpsLex.checkEndOfLine s).map fun (a, b) => (a, 0, if b then " 1" else " 0"))
      | "seteol" => pure ((Qsx.MpsLex.setEndOfLine s).map fun a => (a, 0, ""))
      | "sec" => do let k ← pNat; pure (some ({ s with noType := k == 1 }, 0, ""))
      | _ => failure : P (Option (Qsx.MpsLex.St × Int × String)))
    if dead then out := out ++ ["mx OOB"] else
    if s.pnull && op != "nl" && op != "sec" then out := out ++ ["mx NULLP"] else      -- the harness does not make the call either
    match r with
    | some (s', rc, extra) => s := s'; out := out ++ [show_ s' rc extra]
    | none => dead := true; out := out ++ ["mx OOB"]
  pure out

/-- one protocol line ↦ answer lines (without the terminating ".") -/
def answer (cx : Ctx) (toks : List String) : Ctx × List String :=
  match toks with
  | ["inf", a, b] =>
    match parseRat? a, parseRat? b with
    | some p, some n => ({ pinf := p, ninf := n }, ["ok"])
    | _, _ => (cx, ["bad-op"])
  | "opttest" :: rest =>
    let r : Option (List String) := (do
      let P ← pILP cx
      let cs ← pStat; let rs ← pStat
      let ps ← pRatArr cx; let ds ← pRatArr cx
      let reason := optReason P cs rs ps ds
      match optimalTest P cs rs ps ds with
      | none => pure ["rv 0", s!"reason {repr reason}"]
      | some c => pure ["rv 1", s!"reason {repr reason}",
          s!"cache {fmtRat cx c.val}",
          fmtArr cx "cache.x" c.x, fmtArr cx "cache.rc" c.rc,
          fmtArr cx "cache.slack" c.slack, fmtArr cx "cache.pi" c.pi,
          fmtArr cx "psol" (optPsolAfter P cs rs ps)]).run' rest
    (cx, r.getD ["bad-op"])
  | "inftest" :: rest =>
    let r : Option (List String) := (do
      let P ← pILP cx
      let ds ← pRatArr cx
      pure [s!"rv {if infeasibleTest P cx.pinf cx.ninf ds then 1 else 0}"]).run' rest
    (cx, r.getD ["bad-op"])
  | "solve" :: rest =>
    let r : Option (List String) := (do
      let P ← pILP cx
      let dbl ← pStage cx
      let n ← pNat
      let rungs ← pMany n (pStage cx)
      let o := solve P cx.pinf cx.ninf dbl rungs.toList
      let bs := match o.basis with
        | none => "basis none"
        | some b => s!"basis {fmtStat b.1} {fmtStat b.2}"
      if o.rval != 0 then pure ["rval 1", s!"stages {o.stagesUsed}"]
      else pure ["rval 0", s!"status {o.status}", fmtOpt cx "xout" o.xOut, fmtOpt cx "yout" o.yOut, bs,
                 s!"stages {o.stagesUsed}"]).run' rest
    (cx, r.getD ["bad-op"])
  | ["scan", hex] =>
    match unhex hex with
    | none => (cx, ["bad-op"])
    | some cs =>
      let (n, v) := Qsx.Num.scan cs
      match v with
      | .none => (cx, [s!"n {n}", "val none"])
      | .ok q => (cx, [s!"n {n}", s!"val {fmtRat cx q}"])
  | ["brt", free, cs, rs] =>
    -- basis-file round trip: free bits (string of 0/1), cstat, rstat
    let fl := if free == "-" then [] else free.toList.map (· == '1')
    let cl := if cs == "-" then [] else cs.toList.map Char.toNat
    let rl := if rs == "-" then [] else rs.toList.map Char.toNat
    let showLine : Qsx.BasisFile.Line → String
      | .XL c r => s!"XL:{c}:{r}" | .XU c r => s!"XU:{c}:{r}" | .UL c => s!"UL:{c}" | .LL c => s!"LL:{c}"
    match Qsx.BasisFile.encode cl rl with
    | none => (cx, ["enc fail"])
    | some ls =>
      let d := Qsx.BasisFile.decode fl rl.length ls
      (cx, ["enc ok", "lines " ++ toString ls.length ++ ls.foldl (fun s l => s ++ " " ++ showLine l) "",
            s!"dec {fmtStat d.1.toArray} {fmtStat d.2.toArray}",
            s!"norm {fmtStat (Qsx.BasisFile.normalizeC fl cl).toArray} {fmtStat (Qsx.BasisFile.normalizeR rl).toArray}"])
  | "session" :: rest =>
    -- session <op>* ; ops: addcols newrow addrows:<f> delrows:<bok>:<cok> delcols:<bok> chgkeep chgmatrix loadbasis
    --                      optprimal:<status>:<fail> optdual:<status>:<fail> exact:<status>:<fail> failed
    let parseOp (t : String) : Option Qsx.Session.Op :=
      match t.splitOn ":" with
      | ["addcols"] => some .addCols
      | ["newrow"] => some .newRow
      | ["addrows", f] => some (.addRows (f == "1"))
      | ["delrows", b, c] => some (.delRows (b == "1") (c == "1"))
      | ["delcols", b] => some (.delCols (b == "1"))
      | ["chgkeep"] => some .chgKeepFactor
      | ["chgbound", k] => some (.chgBound (k == "1"))
      | ["chgmatrix"] => some .chgMatrix
      | ["loadbasis"] => some .loadBasis
      | ["optprimal", st, f] => st.toNat?.map fun n => .optPrimal n (f == "1")
      | ["optdual", st, f] => st.toNat?.map fun n => .optDual n (f == "1")
      | ["exact", st, f] => st.toNat?.map fun n => .exactSolver n (f == "1") false false
      | ["exact", st, f, b, k] => st.toNat?.map fun n => .exactSolver n (f == "1") (b == "1") (k == "1")
      | ["failed"] => some .failedCall
      | _ => none
    -- optional first token init:<basis>:<cache>:<factorok>:<qstatus> (state in which the history starts)
    let (s0, rest) : Qsx.Session.S × List String := match rest with
      | t :: r => match t.splitOn ":" with
        | ["init", b, c, f, q] => ({ basis := b == "1", cache := c == "1", factorok := f == "1", qstatus := q.toNat?.getD 0 }, r)
        | _ => ({}, rest)
      | [] => ({}, rest)
    match rest.mapM parseOp with
    | none => (cx, ["bad-op"])
    | some ops =>
      let b2s (b : Bool) := if b then "1" else "0"
      let (_, out) := ops.foldl (fun (acc : Qsx.Session.S × List String) op =>
        let s' := Qsx.Session.step acc.1 op
        (s', acc.2 ++ [s!"s basis={b2s s'.basis} cache={b2s s'.cache} factorok={b2s s'.factorok} qstatus={s'.qstatus}"])) (s0, [])
      (cx, out)
  | ["writers"] =>
    -- direct writers of the generated table that are not allowed sites
    let bad := Qsx.Gen.directWriters.filter (fun e => !Qsx.Log.allowedSite e)
    (cx, [s!"writers {Qsx.Gen.directWriters.length} {bad.length}"] ++
         bad.map fun e => s!"site {e.1} {e.2.1} {e.2.2.1} {e.2.2.2.1} {e.2.2.2.2}")
  | "verdict" :: rest =>
    -- C12: verdict <ilp> cstat rstat x s y : multiplication check of the basic solution, verdicts, dual bound
    let r : Option (List String) := (do
      let P ← pILP cx
      let cs ← pStat; let rs ← pStat
      let x ← pRatArr cx; let s ← pRatArr cx; let y ← pRatArr cx
      let b : Qsx.Verdict.BSol := { x := x, s := s, y := y }
      let b2s (b : Bool) := if b then "1" else "0"
      pure [s!"basic {b2s (Qsx.Verdict.isBasicSol P cs rs b)}",
            s!"pfeas {b2s (Qsx.Verdict.primalFeasible P b)}",
            s!"dfeas {b2s (Qsx.Verdict.dualFeasible P cs rs b)}",
            s!"opt {b2s (Qsx.Verdict.optimalVerdict P cs rs b)}",
            s!"dbound {fmtRat cx (Qsx.Verdict.dualBound P cs rs b)}",
            s!"objv {fmtRat cx (P.objv (rget b.x) (rget b.s))}"]).run' rest
    (cx, r.getD ["bad-op"])
  | "linsess" :: rest =>
    -- C13: linsess n <B row-major n*n> m {f <a> <x> | b <c> <y> | r i <r> | k <v> | u p <a>}*m
    let r : Option (List String) := (do
      let n ← pNat
      let rows ← pMany n (pMany n (pRat cx))
      let m ← pNat
      let mut M : Qsx.LinAlg.Mat := { rows := rows }
      let mut out : List String := []
      for _ in [0:m] do
        let k ← pTok
        let B : Nat → Nat → Rat := M.at
        if k == "f" then
          let a ← pMany n (pRat cx); let x ← pMany n (pRat cx)
          out := out ++ [if Qsx.LinAlg.solveOK n B (rget x) (rget a) then "f 1" else "f 0"]
        else if k == "b" then
          let c ← pMany n (pRat cx); let y ← pMany n (pRat cx)
          out := out ++ [if Qsx.LinAlg.tsolveOK n B (rget y) (rget c) then "b 1" else "b 0"]
        else if k == "r" then
          let i ← pNat; let rr ← pMany n (pRat cx)
          out := out ++ [if Qsx.LinAlg.unitRowOK n B i (rget rr) then "r 1" else "r 0"]
        else if k == "k" then
          let v ← pMany n (pRat cx)
          out := out ++ [if Qsx.LinAlg.kernelOK n B (rget v) then "k 1" else "k 0"]
        else if k == "u" then
          let p ← pNat; let a ← pMany n (pRat cx)
          M := { rows := (Array.range n).map fun i => (Array.range n).map fun kk => Qsx.LinAlg.replaceCol B p (rget a) i kk }
          out := out ++ ["u 1"]
        else failure
      pure out).run' rest
    (cx, r.getD ["bad-op"])
  | "tabcheck" :: rest =>
    -- C13: tabcheck n nall <A row-major n*nall> <ord n> i <r n> <t nall>
    let r : Option (List String) := (do
      let n ← pNat; let nall ← pNat
      let rows ← pMany n (pMany nall (pRat cx))
      let ord ← pMany n pNat
      let i ← pNat
      let rr ← pMany n (pRat cx); let t ← pMany nall (pRat cx)
      let M : Qsx.LinAlg.Mat := { rows := rows }
      let okOrd := (ord.toList.all (· < nall))
      pure [s!"ord {if okOrd then 1 else 0}",
            s!"unitrow {if Qsx.LinAlg.unitRowOK n (Qsx.LinAlg.basisOf M.at (nget ord)) i (rget rr) then 1 else 0}",
            s!"tabrow {if Qsx.LinAlg.tabRowOK n nall M.at (rget rr) (rget t) then 1 else 0}"]).run' rest
    (cx, r.getD ["bad-op"])
  | "xform" :: rest =>
    -- C15: xform n {op}*n <lp> ; prints the transformed LP and the value map v' = a*v + b
    let r : Option (List String) := (do
      let n ← pNat
      let ops ← pMany n (do
        let k ← pTok
        if k == "neg" then pure (k, 0, (0 : Rat), (#[] : Array Nat))
        else if k == "srow" || k == "red" || k == "shift" || k == "scale" then
          let i ← pNat; let t ← pRat cx; pure (k, i, t, #[])
        else if k == "dup" || k == "split" then
          let i ← pNat; pure (k, i, 0, #[])
        else if k == "prow" || k == "pcol" then
          let m ← pNat; let sg ← pMany m pNat; pure (k, 0, 0, sg)
        else failure)
      let L ← pLP cx
      let step := fun (acc : LP × Rat × Rat) (o : String × Nat × Rat × Array Nat) =>
        let (L, a, b) := acc
        let (k, i, t, sg) := o
        if k == "neg" then (Qsx.Xform.negObj L, -a, -b)
        else if k == "srow" then (Qsx.Xform.scaleRow L i t, a, b)
        else if k == "red" then (Qsx.Xform.addRedundant L i t, a, b)
        else if k == "shift" then (Qsx.Xform.shiftVar L cx.pinf cx.ninf i t, a, b - (L.col i).obj * t)
        else if k == "scale" then (Qsx.Xform.scaleVar L cx.pinf cx.ninf i t, a, b)
        else if k == "dup" then (Qsx.Xform.dupRow L i, a, b)
        else if k == "split" then (Qsx.Xform.splitEq L i, a, b)
        else if k == "prow" then (Qsx.Xform.permRows L sg, a, b)
        else (Qsx.Xform.permCols L sg, a, b)
      let (L', a, b) := ops.foldl step (L, 1, 0)
      let fmtRow := fun (r : Row) => s!"{r.sense} {fmtRat cx r.rhs} {fmtRat cx r.range} {r.ent.length}" ++
        r.ent.foldl (fun (s : String) (e : Nat × Rat) => s ++ " " ++ toString e.1 ++ " " ++ fmtRat cx e.2) ""
      let line := "lp " ++ (if L'.isMin then "min" else "max") ++ s!" {L'.nc} {L'.nr}" ++
        L'.cols.foldl (fun (s : String) (c : VCol) => s ++ " " ++ fmtRat cx c.obj ++ " " ++ fmtRat cx c.lo ++ " " ++ fmtRat cx c.up) "" ++
        L'.rows.foldl (fun (s : String) (r : Row) => s ++ " " ++ fmtRow r) ""
      pure [line, s!"map {fmtRat cx a} {fmtRat cx b}"]).run' rest
    (cx, r.getD ["bad-op"])
  | "conv" :: rest =>
    -- C16: conv p n {q d}*n : every converted value within one ulp of a p-bit significand
    let r : Option (List String) := (do
      let p ← pNat; let n ← pNat
      let prs : Array (Rat × Rat) ← pMany n (do let q ← pRat cx; let d ← pRat cx; pure (q, d))
      let bad := (List.range n).filter fun i => !(Qsx.Round.convOK (prs.getD i (0, 0)).1 (prs.getD i (0, 0)).2 p)
      pure [s!"conv {n - bad.length} {bad.length}" ++ bad.foldl (fun s i => s ++ " " ++ toString i) ""]).run' rest
    (cx, r.getD ["bad-op"])
  | "solsec" :: rest =>
    -- C19: solsec n hexname*n k {hexname val}*k : the reader's side of one solution-file section
    let r : Option (List String) := (do
      let n ← pNat
      let names ← pMany n pName
      let k ← pNat
      let ents ← pMany k (do let nm ← pName; let v ← pRat cx; pure (nm.getD "", v))
      let vec := Qsx.SolFile.decodeSec (names.toList.map (fun (o : Option String) => o.getD "")) ents.toList
      pure [fmtArr cx "vec" vec.toArray]).run' rest
    (cx, r.getD ["bad-op"])
  | "ftype" :: rest =>
    let r : Option (List String) := (do
      let f ← pNat; let n ← pNat
      let parts ← pMany n pName
      let t := Qsx.SolFile.ftypeOf (f != 0) (parts.toList.map (fun (o : Option String) => o.getD ""))
      pure [if t == Qsx.SolFile.FType.lp then "ftype lp" else "ftype mps"]).run' rest
    (cx, r.getD ["bad-op"])
  | "cap" :: rest =>
    -- C17: cap <nrows ncols nstruct matcols rowsize colsize structsize matcolsize> n {r | c | dr k | dc k}*n
    let r : Option (List String) := (do
      let a ← pMany 8 pNat
      let s0 : Qsx.Cap.S := { nrows := a[0]!, ncols := a[1]!, nstruct := a[2]!, matcols := a[3]!, rowsize := a[4]!, colsize := a[5]!,
                              structsize := a[6]!, matcolsize := a[7]! }
      let n ← pNat
      let ops ← pMany n (do
        let k ← pTok
        if k == "r" then pure Qsx.Cap.Op.addRow
        else if k == "c" then pure Qsx.Cap.Op.addCol
        else if k == "dr" then (do let m ← pNat; pure (Qsx.Cap.Op.delRows m))
        else if k == "dc" then (do let m ← pNat; pure (Qsx.Cap.Op.delCols m))
        else failure)
      let (_, out) := ops.foldl (fun (acc : Qsx.Cap.S × List String) o =>
        let s' := (Qsx.Cap.step acc.1 o).1
        (s', acc.2 ++ [s!"s {s'.nrows} {s'.ncols} {s'.nstruct} {s'.matcols} {s'.rowsize} {s'.colsize} {s'.structsize} {s'.matcolsize}"])) (s0, [])
      pure out).run' rest
    (cx, r.getD ["bad-op"])
  | "bounds" :: rest =>
    -- C08/C09: bounds <lp|mps> n {lo up isInt}*n : what the writer prints for each column
    let r : Option (List String) := (do
      let fmt ← pTok
      let n ← pNat
      let cols ← pMany n (do let lo ← pRat cx; let up ← pRat cx; let i ← pNat; pure (lo, up, i != 0))
      let showO (o : Option Rat) : String := match o with | some v => fmtRat cx v | none => "-"
      let out := (List.range n).map fun j =>
        let (lo, up, isInt) := cols.getD j (0, 0, false)
        if fmt == "lp" then
          match Qsx.LpBounds.writeCol lo up cx.pinf cx.ninf isInt with
          | none => s!"c {j} none"
          | some (.fixed v) => s!"c {j} fixed {fmtRat cx v}"
          | some .free => s!"c {j} free"
          | some (.range a b) => s!"c {j} range {showO a} {showO b}"
        else
          let rs := Qsx.MpsBounds.writeCol lo up cx.pinf cx.ninf isInt
          s!"c {j}" ++ rs.foldl (fun (acc : String) (r : Qsx.MpsBounds.Rec) => acc ++ (match r with
            | .fx v => s!" FX {fmtRat cx v}" | .fr => " FR" | .mi => " MI" | .lo v => s!" LO {fmtRat cx v}"
            | .pl => " PL" | .up v => s!" UP {fmtRat cx v}")) ""
      pure out).run' rest
    (cx, r.getD ["bad-op"])
  | "store" :: rest =>
    -- C06/C17: store <matrows matcols matsize matfree matcolsize nstruct> <matbeg> <matcnt> <matind(used)> <structmap> <rowmap> n {op}*n
    --   ops: ar c k {j a}*k (c = coefficient of the logical) | ac k {i a}*k | cc row col v | dr k i.. | dc k j..
    let r : Option (List String) := (do
      let h ← pMany 6 pInt
      let pArr : P (Array Int) := do let n ← pNat; pMany n pInt
      let beg ← pArr; let cnt ← pArr; let ind ← pArr; let sm ← pArr; let rm ← pArr
      let matsize := (h[2]!).toNat
      let A0 : Qsx.Store.M := {
        matrows := (h[0]!).toNat, matcols := (h[1]!).toNat, matsize := matsize, matfree := h[3]!, matcolsize := (h[4]!).toNat,
        nstruct := (h[5]!).toNat,
        matbeg := Qsx.Store.growTo (beg.map Int.toNat) (h[4]!).toNat 0, matcnt := Qsx.Store.growTo (cnt.map Int.toNat) (h[4]!).toNat 0,
        matind := Qsx.Store.growTo ind matsize (-1), matval := Array.replicate matsize 0,
        structmap := sm.map Int.toNat, rowmap := rm.map Int.toNat }
      let n ← pNat
      let pEntN : P (List Nat × List Rat) := do
        let k ← pNat
        let es : Array (Nat × Rat) ← pMany k (do let i ← pNat; let v ← pRat cx; pure (i, v))
        pure (es.toList.map (fun (e : Nat × Rat) => e.1), es.toList.map (fun (e : Nat × Rat) => e.2))
      let fmtA (key : String) (a : List String) : String := key ++ " " ++ toString a.length ++ a.foldl (fun s t => s ++ " " ++ t) ""
      let dump (A : Qsx.Store.M) (w : List Nat) : List String :=
        let used := Qsx.Store.used A
        [s!"raw matrows={A.matrows} matcols={A.matcols} matsize={A.matsize} matfree={A.matfree} matcolsize={A.matcolsize} nstruct={A.nstruct}",
         fmtA "structmap" ((List.range A.nstruct).map fun i => toString (Qsx.Store.getn A.structmap i)),
         fmtA "rowmap" ((List.range A.matrows).map fun i => toString (Qsx.Store.getn A.rowmap i)),
         fmtA "matbeg" ((List.range A.matcols).map fun i => toString (Qsx.Store.getn A.matbeg i)),
         fmtA "matcnt" ((List.range A.matcols).map fun i => toString (Qsx.Store.getn A.matcnt i)),
         fmtA "matind" ((List.range used).map fun i => toString (Qsx.Store.geti A.matind i)),
         s!"writes {w.length} {w.foldl max 0} {if w.all (· < A.matsize) then 1 else 0}"]
      let mut A := A0
      let mut out : List String := []
      for _ in [0:n] do
        let k ← pTok
        if k == "ar" then
          let c ← pRat cx
          let (ind, val) ← pEntN
          let (A', w, acct) := Qsx.Store.addRow A ind val c
          A := A'; out := out ++ dump A w ++ [s!"acct {acct}"]
        else if k == "ac" then
          let (ind, val) ← pEntN
          let (A', w) := Qsx.Store.addCol A ind val
          A := A'; out := out ++ dump A w
        else if k == "cc" then
          let r ← pNat; let c ← pNat; let v ← pRat cx
          let (A', w) := Qsx.Store.chgCoef A r c v
          A := A'; out := out ++ dump A w
        else if k == "dr" then
          let m ← pNat; let l ← pMany m pNat
          A := Qsx.Store.delRows A l.toList; out := out ++ dump A []
        else if k == "dc" then
          let m ← pNat; let l ← pMany m pNat
          A := Qsx.Store.delCols A l.toList; out := out ++ dump A []
        else failure
      pure out).run' rest
    (cx, r.getD ["bad-op"])
  | "ratiop2" :: rest =>
    -- C03: ILLratio_pII_test on explicit rows: incr ebounded el eu pivtol pftol n (y x l u)*n
    let r : Option (List String) := (do
      let incr ← pNat; let eb ← pNat
      let el ← pRat cx; let eu ← pRat cx; let pv ← pRat cx; let pf ← pRat cx
      let n ← pNat
      let rows ← pMany n (do
        let y ← pRat cx; let x ← pRat cx; let l ← pRat cx; let u ← pRat cx
        pure ({ y := y, x := x, l := l, u := u } : Qsx.Ratio.Row))
      let p : Qsx.Ratio.Par := { inf := cx.pinf, pivtol := pv, pftol := pf, incr := incr == 1, ebounded := eb == 1, el := el, eu := eu }
      let res := Qsx.Ratio.pII p rows.toList
      pure [s!"res {res.stat.code} {res.lindex} {fmtRat cx res.tz} {fmtRat cx res.pivot} {res.lvstat} {if res.boundch then 1 else 0} {fmtRat cx res.lbound}"]).run' rest
    (cx, r.getD ["bad-op"])
  | "symtab" :: rest =>
    (cx, (symtabSession.run' rest).getD ["bad-op"])
  | "lplex" :: rest =>
    (cx, (lplexSession.run' rest).getD ["bad-op"])
  | "mpslex" :: rest =>
    (cx, (mpslexSession.run' rest).getD ["bad-op"])
  | "ratiod2" :: rest =>
    -- C03: ILLratio_dII_test on explicit columns: lvupper pivtol dftol n (zA dz cz vstat skip)*n
    let r : Option (List String) := (do
      let lvu ← pNat
      let pv ← pRat cx; let df ← pRat cx
      let n ← pNat
      let cols ← pMany n (do
        let zA ← pRat cx; let dz ← pRat cx; let cz ← pRat cx; let vs ← pNat; let sk ← pNat
        pure ({ zA := zA, dz := dz, cz := cz, vstat := vs, skip := sk == 1 } : Qsx.Ratio.DCol))
      let res := Qsx.Ratio.dII cx.pinf pv df (lvu == 1) cols.toList
      pure [s!"res {res.stat.code} {res.eindex} {fmtRat cx res.tz} {fmtRat cx res.pivot} {if res.coeffch then 1 else 0} {fmtRat cx res.ecoeff}"]).run' rest
    (cx, r.getD ["bad-op"])
  | ["mpsrange", sense, rhs, r] =>
    -- C09: what the MPS reader stores for a row of that sense / rhs with a RANGES value r ("-" = none)
    match parseRat? rhs, (if r == "-" then some none else (parseRat? r).map some) with
    | some q, some ro =>
      let (s', rhs', rg') := Qsx.MpsRanges.readRow sense.front q ro
      (cx, [s!"row {s'} {fmtRat cx rhs'} {fmtRat cx rg'}"])
    | _, _ => (cx, ["bad-op"])
  | "tointernal" :: rest =>
    let r : Option (List String) := (do
      let L ← pLP cx
      pure [fmtILP cx (L.toInternal cx.pinf)]).run' rest
    (cx, r.getD ["bad-op"])
  | "certok" :: rest =>
    let r : Option (List String) := (do
      let L ← pLP cx
      let x ← pRatArr cx; let pi ← pRatArr cx
      let ok := L.certOK cx.pinf cx.ninf x pi
      pure [s!"ok {if ok then 1 else 0}", s!"val {fmtRat cx (L.objv (rget x))}",
            fmtArr cx "slack" (tab L.nr (L.slackOf (rget x))),
            fmtArr cx "rc" (tab L.nc fun j => dzOf ((L.toInternal cx.pinf).scol j) (rget pi))]).run' rest
    (cx, r.getD ["bad-op"])
  | "farkas" :: rest =>
    let r : Option (List String) := (do
      let L ← pLP cx
      let y ← pRatArr cx
      pure [s!"ok {if L.checkFarkas cx.pinf cx.ninf y then 1 else 0}"]).run' rest
    (cx, r.getD ["bad-op"])
  | "ray" :: rest =>
    let r : Option (List String) := (do
      let L ← pLP cx
      let x ← pRatArr cx; let d ← pRatArr cx
      pure [s!"ok {if L.checkRay cx.pinf cx.ninf x d then 1 else 0}"]).run' rest
    (cx, r.getD ["bad-op"])
  | _ => (cx, ["bad-op"])

partial def loop (h : IO.FS.Stream) (out : IO.FS.Stream) (st : DState) : IO Unit := do
  let line ← h.getLine
  if line.isEmpty then return ()
  let toks := (line.trimAscii.toString.splitOn " ").filter (· ≠ "")
  if toks.isEmpty then loop h out st else
  let (st', ans) := match specAnswer st toks with
    | some r => r
    | none => let (cx', a) := answer st.cx toks; ({ st with cx := cx' }, a)
  for a in ans do out.putStrLn a
  out.putStrLn "."
  loop h out st'

def main : IO Unit := do
  let out ← IO.getStdout
  loop (← IO.getStdin) out {}
  out.flush
